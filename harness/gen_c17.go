package main

import (
	"bytes"
	"crypto/sha256"
	_ "embed"
	"encoding/hex"
	"encoding/json"
	"fmt"
	"math/big"
	"strconv"
	"strings"
	"sync"

	"cosmossdk.io/math"
	sdk "github.com/cosmos/cosmos-sdk/types"

	ophosttypes "github.com/initia-labs/OPinit/x/ophost/types"
)

// C17: commitment and identifier formats match the published spec; verification is pure.
//
// Stream: the chain's exported functions (GenerateWithdrawalHash, GenerateNodeHash,
// GenerateRootHashFromProofs, GenerateOutputRoot, L2Denom, BridgeAddress) are called on
// generated inputs and on vectors pinned from Python's hashlib; each (input, output) becomes a
// Coq case that Model/Hashes.v (with the Gallina SHA3-256 / SHA-256) must reproduce.
// Monitors (model-free): (a) an independent Go implementation of the documented formats on top
// of x/crypto/sha3 and crypto/sha256 must agree; (b) every call taking byte slices is repeated
// under five memory layouts - all results equal, every backing buffer (incl. spare capacity)
// byte-identical before and after; (c) node hash commutative; (d) the same withdrawal claims
// go through MsgFinalizeTokenWithdrawal under each layout with identical verdicts and effects.

//go:embed corpus/c17_vectors.json
var c17VectorsJSON []byte

const fmtCaseHeader = `Require Import Model.Bytes Model.Obs Model.Hashes Model.TraceFmt.
From Coq Require Import List NArith ZArith String.
Import ListNotations.
Local Open Scope string_scope.
`

// ---- memory layouts ----
const nLayouts = 5

var layoutNames = [nLayouts]string{"separate", "one-buffer", "over-capacity", "reversed-buffer", "aliased"}

// layOut places copies of the byte strings ins in memory according to layout k and returns the
// slices to pass plus every backing buffer in full (with spare capacity) for the snapshots.
func layOut(k int, ins [][]byte) (slices [][]byte, backing [][]byte) {
	slices = make([][]byte, len(ins))
	switch k {
	case 0: // separately allocated, exact capacity
		for i, x := range ins {
			s := make([]byte, len(x))
			copy(s, x)
			slices[i] = s
			backing = append(backing, s)
		}
	case 1, 3: // sub-slices of one buffer (in order / in reverse order), capacity runs to the end of the buffer
		total := 0
		for _, x := range ins {
			total += len(x)
		}
		buf := make([]byte, total+64)
		for i := range buf {
			buf[i] = 0xA5
		}
		off := 0
		for j := range ins {
			i := j
			if k == 3 {
				i = len(ins) - 1 - j
			}
			copy(buf[off:], ins[i])
			slices[i] = buf[off : off+len(ins[i])]
			off += len(ins[i])
		}
		backing = append(backing, buf)
	case 2: // separately allocated with spare capacity
		for i, x := range ins {
			s := make([]byte, len(x), len(x)+96)
			copy(s, x)
			full := s[:cap(s)]
			for j := len(x); j < len(full); j++ {
				full[j] = 0x5A
			}
			slices[i] = s
			backing = append(backing, full)
		}
	case 4: // maximal aliasing: equal values are the very same memory; all in one buffer
		buf := make([]byte, 0, 64)
		type span struct{ off, n int }
		spans := make([]span, len(ins))
		seen := map[string]span{}
		for i, x := range ins {
			if sp, ok := seen[string(x)]; ok && len(x) > 0 {
				spans[i] = sp
				continue
			}
			sp := span{len(buf), len(x)}
			buf = append(buf, x...)
			seen[string(x)] = sp
			spans[i] = sp
		}
		buf = append(buf, bytes.Repeat([]byte{0xC3}, 64)...)
		for i, sp := range spans {
			slices[i] = buf[sp.off : sp.off+sp.n]
		}
		backing = append(backing, buf)
	}
	return
}

func snapshot(bufs [][]byte) [][]byte {
	out := make([][]byte, len(bufs))
	for i, b := range bufs {
		out[i] = append([]byte{}, b...)
	}
	return out
}
func sameBufs(a, b [][]byte) bool {
	for i := range a {
		if !bytes.Equal(a[i], b[i]) {
			return false
		}
	}
	return true
}
func hexList(xs [][]byte) []string {
	out := make([]string, len(xs))
	for i, x := range xs {
		out[i] = hex.EncodeToString(x)
	}
	return out
}

// underLayouts runs call on every layout of ins; reports layout dependence and modified inputs;
// returns the result of the separately-allocated layout.
func underLayouts(rep *Report, id int, what string, human string, ins [][]byte, call func(k int, s [][]byte) []byte) []byte {
	var ref []byte
	for k := 0; k < nLayouts; k++ {
		s, backing := layOut(k, ins)
		before := snapshot(backing)
		out := call(k, s)
		rep.Hist("layout:" + layoutNames[k])
		if !sameBufs(before, backing) {
			rep.Violate(Violation{Case: id, Step: k, What: what + " modified its caller's buffers under layout " + layoutNames[k], Sig: "C17:input-modified",
				Ops: []string{human}, Detail: map[string]interface{}{"inputs": hexList(ins), "buffers_before": hexList(before), "buffers_after": hexList(backing)}})
		}
		if k == 0 {
			ref = out
		} else if !bytes.Equal(ref, out) {
			rep.Violate(Violation{Case: id, Step: k, What: what + " returned a different value for the same bytes under layout " + layoutNames[k], Sig: "C17:layout-dependent",
				Ops: []string{human}, Detail: map[string]interface{}{"inputs": hexList(ins), "separate": hex.EncodeToString(ref), layoutNames[k]: hex.EncodeToString(out)}})
		}
	}
	return ref
}

// ---- independent Go implementation of the documented formats ----
func indepNode(a, b []byte) []byte { return h3(sortedPair(a, b)) }
func indepRoot(l []byte, ps [][]byte) []byte {
	for _, p := range ps {
		l = indepNode(l, p)
	}
	return l
}
func indepLeaf(bridge, seq uint64, from, to, denom string, amt uint64) []byte {
	return Withdrawal{Bridge: bridge, Seq: seq, From: from, To: to, Denom: denom, Amt: new(big.Int).SetUint64(amt)}.Leaf()
}
func indepDenom(bridge uint64, d string) string {
	return "l2/" + hex.EncodeToString(h3(append(be8(bridge), []byte(d)...)))
}
func indepAddr(bridge uint64) []byte {
	t := sha256.Sum256([]byte("module"))
	pre := append(append(append(append([]byte{}, t[:]...), []byte("ophost")...), 0), be8(bridge)...)
	x := sha256.Sum256(pre)
	return x[:]
}

// ---- one format case ----
type fmtCase struct {
	id    int
	coqIn string
	human string
	out   []byte
}

func (c fmtCase) Coq() string {
	return fmt.Sprintf("(%d%%N, %s, [OB %s])", c.id, c.coqIn, coqBytes(c.out))
}

type c17Gen struct {
	rep   *Report
	r     *Rng
	cases []fmtCase
}

func (g *c17Gen) add(kind, coqIn, human string, out []byte, indep []byte) {
	id := len(g.cases) + 1
	g.rep.Hist("fmt:" + kind)
	if indep != nil && !bytes.Equal(out, indep) {
		g.rep.Violate(Violation{Case: id, What: kind + ": the chain's value differs from the documented format", Sig: "C17:format-mismatch", Ops: []string{human},
			Detail: map[string]string{"chain": hex.EncodeToString(out), "documented": hex.EncodeToString(indep)}})
	}
	g.cases = append(g.cases, fmtCase{id: id, coqIn: coqIn, human: human, out: out})
	g.rep.CountCase(human, true)
	g.rep.Ops++
	if len(g.rep.Samples) < 3 && (kind == "leaf" || kind == "root" || kind == "denom") && len(human) < 600 {
		have := false
		for _, s := range g.rep.Samples {
			if s.(map[string]string)["kind"] == kind {
				have = true
			}
		}
		if !have {
			g.rep.Sample(map[string]string{"kind": kind, "input": human, "chain_output": hex.EncodeToString(out)})
		}
	}
}

var u64Bounds = []uint64{0, 1, 2, 255, 256, 65535, 1<<32 - 1, 1 << 32, 1<<63 - 1, 1 << 63, 1<<63 + 1, ^uint64(0) - 1, ^uint64(0)}

func (g *c17Gen) u64() uint64 {
	switch g.r.Weighted([]int{40, 40, 20}) {
	case 0:
		return u64Bounds[g.r.Intn(len(u64Bounds))]
	case 1:
		return g.r.U64()
	default:
		return uint64(g.r.Intn(1000))
	}
}
func (g *c17Gen) str() string {
	r := g.r
	switch r.Weighted([]int{10, 30, 15, 15, 15, 15}) {
	case 0:
		return ""
	case 1:
		return []string{"uinit", "l2user1", "init1qqqsyqcyq5rqwzqfpg9scrgwpugpzysn2wvg8", "0xdeadbeef", "a", "ibc/27394FB092D2ECCD56123C74F36E4C1F926001CEADA9CA97EA622B25F41E5EB2"}[r.Intn(6)]
	case 2: // long: crosses one or more sponge blocks (rate 136)
		n := []int{135, 136, 137, 271, 272, 273, 300 + r.Intn(200)}[r.Intn(7)]
		return strings.Repeat(string(rune('a'+r.Intn(26))), n)
	case 3: // non-ASCII UTF-8
		return []string{"é", "中文地址", "\U0001F600\U0001F680", "naïve/денoм", "\u0000\u0001"}[r.Intn(5)] + strconv.Itoa(r.Intn(10))
	case 4: // arbitrary bytes (a Go string may hold invalid UTF-8)
		return string(r.Bytes(1 + r.Intn(40)))
	default:
		return "user" + strconv.Itoa(r.Intn(1000))
	}
}

func (g *c17Gen) leaf() {
	b, s, a := g.u64(), g.u64(), g.u64()
	f, t, d := g.str(), g.str(), g.str()
	if g.r.Chance(10) {
		t = f
	}
	out := ophosttypes.GenerateWithdrawalHash(b, s, f, t, d, a)
	// strings are immutable in Go; repeat the call on fresh copies to see that it is a function of the values
	out2 := ophosttypes.GenerateWithdrawalHash(b, s, string([]byte(f)), string([]byte(t)), string([]byte(d)), a)
	human := fmt.Sprintf("GenerateWithdrawalHash(%d, %d, %q, %q, %q, %d)", b, s, f, t, d, a)
	if out != out2 {
		g.rep.Violate(Violation{Case: len(g.cases) + 1, What: "GenerateWithdrawalHash is not a function of its argument values", Sig: "C17:layout-dependent", Ops: []string{human}})
	}
	g.add("leaf", fmt.Sprintf("FLeaf %s %s %s %s %s %s", coqU(b), coqU(s), coqStr(f), coqStr(t), coqStr(d), coqU(a)), human, out[:], indepLeaf(b, s, f, t, d, a))
}

func (g *c17Gen) nodePair() (a, b []byte) {
	r := g.r
	a = r.Bytes(32)
	switch r.Weighted([]int{35, 15, 20, 10, 10, 10}) {
	case 0:
		b = r.Bytes(32)
	case 1: // equal
		b = append([]byte{}, a...)
	case 2: // adjacent: differ by one in one byte
		b = append([]byte{}, a...)
		i := []int{31, 0, r.Intn(32)}[r.Intn(3)]
		if r.Bool() {
			b[i]++
		} else {
			b[i]--
		}
	case 3: // extreme values
		a = bytes.Repeat([]byte{[]byte{0, 0xff, 0x7f, 0x80}[r.Intn(4)]}, 32)
		b = bytes.Repeat([]byte{[]byte{0, 0xff, 0x7f, 0x80}[r.Intn(4)]}, 32)
	case 4: // one a prefix of the other / unusual lengths (the function is defined on all lengths)
		n := []int{0, 1, 31, 33, 64}[r.Intn(5)]
		if n <= 32 {
			b = append([]byte{}, a[:n]...)
		} else {
			b = append(append([]byte{}, a...), r.Bytes(n-32)...)
		}
	default: // shared long prefix
		b = append([]byte{}, a...)
		copy(b[24:], r.Bytes(8))
	}
	if r.Bool() {
		a, b = b, a
	}
	return
}

func (g *c17Gen) node() {
	a, b := g.nodePair()
	human := fmt.Sprintf("GenerateNodeHash(%x, %x)", a, b)
	id := len(g.cases) + 1
	out := underLayouts(g.rep, id, "GenerateNodeHash", human, [][]byte{a, b}, func(k int, s [][]byte) []byte {
		if k == 4 && len(s[0]) == 32 { // input = output: the first argument is the array the result is assigned to
			var data [32]byte
			copy(data[:], s[0])
			data = ophosttypes.GenerateNodeHash(data[:], s[1])
			return data[:]
		}
		x := ophosttypes.GenerateNodeHash(s[0], s[1])
		return x[:]
	})
	rev := ophosttypes.GenerateNodeHash(b, a)
	if !bytes.Equal(out, rev[:]) {
		g.rep.Violate(Violation{Case: id, What: "GenerateNodeHash(a,b) differs from GenerateNodeHash(b,a)", Sig: "C17:node-not-commutative", Ops: []string{human},
			Detail: map[string]string{"ab": hex.EncodeToString(out), "ba": hex.EncodeToString(rev[:])}})
	}
	g.add("node", fmt.Sprintf("FNode %s %s", coqBytes(a), coqBytes(b)), human, out, indepNode(a, b))
}

func (g *c17Gen) root() {
	r := g.r
	leaf := r.Bytes(32)
	n := []int{0, 1, 2, 3, 5, 8, 12}[r.Intn(7)]
	var ps [][]byte
	for i := 0; i < n; i++ {
		switch r.Weighted([]int{60, 10, 10, 10, 10}) {
		case 0:
			ps = append(ps, r.Bytes(32))
		case 1: // the running value itself (odd last node paired with itself)
			ps = append(ps, indepRoot(leaf, ps))
		case 2: // a repeated element
			if len(ps) > 0 {
				ps = append(ps, append([]byte{}, ps[r.Intn(len(ps))]...))
			} else {
				ps = append(ps, append([]byte{}, leaf...))
			}
		case 3: // small: the running value is almost surely greater, so the proof element comes first
			ps = append(ps, append(make([]byte, 4), r.Bytes(28)...))
		default: // large: the running value comes first
			ps = append(ps, append([]byte{0xff, 0xff, 0xff, 0xff}, r.Bytes(28)...))
		}
	}
	var la [32]byte
	copy(la[:], leaf)
	human := fmt.Sprintf("GenerateRootHashFromProofs(%x, %v)", leaf, hexList(ps))
	id := len(g.cases) + 1
	out := underLayouts(g.rep, id, "GenerateRootHashFromProofs", human, ps, func(k int, s [][]byte) []byte {
		x := ophosttypes.GenerateRootHashFromProofs(la, s)
		return x[:]
	})
	if !bytes.Equal(la[:], leaf) {
		g.rep.Violate(Violation{Case: id, What: "GenerateRootHashFromProofs modified the leaf", Sig: "C17:input-modified", Ops: []string{human}})
	}
	cps := make([]string, len(ps))
	for i, p := range ps {
		cps[i] = coqBytes(p)
	}
	g.add("root", fmt.Sprintf("FRoot %s %s", coqBytes(leaf), coqList(cps)), human, out, indepRoot(leaf, ps))
}

func (g *c17Gen) outRoot() {
	r := g.r
	v := byte(r.Intn(256))
	if r.Bool() {
		v = byte(r.Intn(3))
	}
	sr, bh := r.Bytes(32), r.Bytes(32)
	switch r.Intn(8) {
	case 0:
		bh = append([]byte{}, sr...)
	case 1: // longer than 32 bytes: only the first 32 count
		sr = append(sr, r.Bytes(1+r.Intn(8))...)
	case 2:
		sr, bh = make([]byte, 32), bytes.Repeat([]byte{0xff}, 32)
	}
	human := fmt.Sprintf("GenerateOutputRoot(%d, %x, %x)", v, sr, bh)
	id := len(g.cases) + 1
	out := underLayouts(g.rep, id, "GenerateOutputRoot", human, [][]byte{sr, bh}, func(k int, s [][]byte) []byte {
		x := ophosttypes.GenerateOutputRoot(v, s[0], s[1])
		return x[:]
	})
	g.add("out", fmt.Sprintf("FOut %s %s %s", coqU(uint64(v)), coqBytes(sr), coqBytes(bh)), human, out, outputRootOf(v, sr[:32], bh[:32]))
}

func (g *c17Gen) denom() {
	b, d := g.u64(), g.str()
	out := ophosttypes.L2Denom(b, d)
	g.add("denom", fmt.Sprintf("FDenom %s %s", coqU(b), coqStr(d)), fmt.Sprintf("L2Denom(%d, %q)", b, d), []byte(out), []byte(indepDenom(b, d)))
}

// denomDense: every length 100..140 (around the sdk's 128-character limit and any fixed buffer
// sized from it), valid denom characters, plus pairs that share all but the last character and
// pairs where one is the other plus one character.
func (g *c17Gen) denomDense() {
	const chars = "abcdefghijklmnopqrstuvwxyzABCDEFGHIJKLMNOPQRSTUVWXYZ0123456789/:._-"
	one := func(b uint64, d string) {
		out := ophosttypes.L2Denom(b, d)
		g.add("denom", fmt.Sprintf("FDenom %s %s", coqU(b), coqStr(d)), fmt.Sprintf("L2Denom(%d, %q)", b, d), []byte(out), []byte(indepDenom(b, d)))
	}
	for n := 100; n <= 140; n++ {
		bs := make([]byte, n)
		bs[0] = chars[g.r.Intn(52)]
		for i := 1; i < n; i++ {
			bs[i] = chars[g.r.Intn(len(chars))]
		}
		b := g.u64()
		d := string(bs)
		one(b, d)
		// same length, same first n-1 characters
		bs2 := append([]byte{}, bs...)
		bs2[n-1] = chars[(strings.IndexByte(chars, bs[n-1])+1+g.r.Intn(len(chars)-1))%len(chars)]
		d2 := string(bs2)
		one(b, d2)
		// one character longer
		d3 := d + string(chars[g.r.Intn(len(chars))])
		one(b, d3)
		o1, o2, o3 := ophosttypes.L2Denom(b, d), ophosttypes.L2Denom(b, d2), ophosttypes.L2Denom(b, d3)
		if o1 == o2 || o1 == o3 || o2 == o3 {
			g.rep.Violate(Violation{Case: len(g.cases), What: fmt.Sprintf("different L1 denoms of length %d/%d map to the same L2 denom", n, n+1), Sig: "C17:denom-not-injective",
				Ops: []string{fmt.Sprintf("L2Denom(%d, %q)", b, d), fmt.Sprintf("L2Denom(%d, %q)", b, d2), fmt.Sprintf("L2Denom(%d, %q)", b, d3)}})
		}
	}
}

// ---- concurrency: the functions are pure, so calls running at the same time must not see each other ----
// A few hundred inputs are evaluated sequentially, then the same inputs by several goroutines
// at once (released together, each starting at a different offset, several rounds); every
// concurrent result must equal the sequential one.  This SAMPLES interleavings of the Go
// scheduler; it does not enumerate them.
func c17Concurrent(rep *Report, seed uint64, tier string) {
	r := NewRng(seed*104729 + 3)
	nIn, workers, rounds := 400, 12, 10
	if tier == "thorough" {
		nIn, workers, rounds = 1200, 16, 12
	}
	type input struct {
		kind   string
		leaf   [32]byte
		ps     [][]byte
		a, b   []byte
		u1, u2 uint64
		s1, s2 string
		ver    byte
	}
	ins := make([]input, nIn)
	g := &c17Gen{rep: NewReport("scratch", 0, ""), r: r}
	for i := range ins {
		switch i % 10 {
		case 0, 1, 2, 3: // roots: most of the time inside GenerateNodeHash
			in := input{kind: "root"}
			copy(in.leaf[:], r.Bytes(32))
			for j, n := 0, 4+r.Intn(9); j < n; j++ {
				in.ps = append(in.ps, r.Bytes(32))
			}
			ins[i] = in
		case 4, 5, 6:
			a, b := g.nodePair()
			ins[i] = input{kind: "node", a: a, b: b}
		case 7:
			ins[i] = input{kind: "leaf", u1: g.u64(), u2: g.u64(), s1: g.str(), s2: g.str()}
		case 8:
			ins[i] = input{kind: "out", ver: byte(r.Intn(256)), a: r.Bytes(32), b: r.Bytes(32)}
		default:
			ins[i] = input{kind: "denom", u1: g.u64(), s1: g.str()}
		}
	}
	eval := func(in *input) (out string) {
		defer func() {
			if p := recover(); p != nil {
				out = fmt.Sprintf("panic: %v", p)
			}
		}()
		switch in.kind {
		case "root":
			x := ophosttypes.GenerateRootHashFromProofs(in.leaf, in.ps)
			return string(x[:])
		case "node":
			x := ophosttypes.GenerateNodeHash(in.a, in.b)
			return string(x[:])
		case "leaf":
			x := ophosttypes.GenerateWithdrawalHash(in.u1, in.u2, in.s1, in.s2, in.s1, in.u2)
			return string(x[:])
		case "out":
			x := ophosttypes.GenerateOutputRoot(in.ver, in.a, in.b)
			return string(x[:])
		default:
			return ophosttypes.L2Denom(in.u1, in.s1)
		}
	}
	describe := func(in *input) string {
		switch in.kind {
		case "root":
			return fmt.Sprintf("GenerateRootHashFromProofs(%x, %v)", in.leaf, hexList(in.ps))
		case "node":
			return fmt.Sprintf("GenerateNodeHash(%x, %x)", in.a, in.b)
		case "leaf":
			return fmt.Sprintf("GenerateWithdrawalHash(%d, %d, %q, %q, %q, %d)", in.u1, in.u2, in.s1, in.s2, in.s1, in.u2)
		case "out":
			return fmt.Sprintf("GenerateOutputRoot(%d, %x, %x)", in.ver, in.a, in.b)
		default:
			return fmt.Sprintf("L2Denom(%d, %q)", in.u1, in.s1)
		}
	}
	seq := make([]string, nIn)
	for i := range ins {
		seq[i] = eval(&ins[i])
	}
	reported := 0
	for round := 0; round < rounds; round++ {
		res := make([][]string, workers)
		start := make(chan struct{})
		var wg sync.WaitGroup
		for w := 0; w < workers; w++ {
			res[w] = make([]string, nIn)
			wg.Add(1)
			go func(w int) {
				defer wg.Done()
				<-start
				off := (w*nIn/workers + round*17) % nIn
				for j := 0; j < nIn; j++ {
					i := (off + j) % nIn
					res[w][i] = eval(&ins[i])
				}
			}(w)
		}
		close(start)
		wg.Wait()
		for w := 0; w < workers; w++ {
			for i := range ins {
				rep.Hist("concurrent:" + ins[i].kind)
				if res[w][i] != seq[i] && reported < 6 {
					reported++
					rep.Violate(Violation{Case: i, Step: round, What: fmt.Sprintf("%s returned a different value while %d goroutines were calling the format functions at the same time (round %d, goroutine %d) than when called alone",
						ins[i].kind, workers, round, w), Sig: "C17:concurrent-call-differs", Ops: []string{describe(&ins[i])},
						Detail: map[string]string{"alone": hex.EncodeToString([]byte(seq[i])), "concurrent": hex.EncodeToString([]byte(res[w][i]))}})
				}
			}
		}
		rep.Ops += workers * nIn
	}
	rep.Notes = append(rep.Notes, fmt.Sprintf("concurrency: %d inputs evaluated alone, then by %d goroutines at once in %d rounds; interleavings are sampled, not enumerated", nIn, workers, rounds))
}

// ---- purity of RESULTS: what a call returns must not be shared with what later calls return ----
// Every function that returns bytes is called, the returned bytes are scribbled over where the
// type allows it (slices: every byte overwritten in place and the spare capacity written by an
// append; arrays: the caller's copy overwritten), the function is called again with the same
// inputs, and the fresh result must equal the independently computed value.  Interleaved with
// deposits through the real msg server: the escrow balance must appear under the documented
// address of the bridge even after a caller has written into an address it was handed.
func scribble(b []byte) {
	for i := range b {
		b[i] ^= 0xFF
	}
	full := b[:cap(b)]
	for i := len(b); i < len(full); i++ {
		full[i] = 0xEE
	}
	_ = append(b[:0], bytes.Repeat([]byte{0x77}, len(b))...) // append within capacity
}

func c17ResultAliasing(rep *Report, seed uint64, tier string) {
	r := NewRng(seed*15485863 + 11)
	g := &c17Gen{rep: NewReport("scratch", 0, ""), r: r}
	n := 60
	if tier == "thorough" {
		n = 600
	}
	bad := func(step int, fn, call string, fresh, want []byte) {
		rep.Violate(Violation{Case: step, Step: step, What: fn + ": after a caller wrote into the value it had been returned, a fresh call with the same inputs no longer returns the documented value (results share memory)",
			Sig: "C17:result-aliased", Ops: []string{call + "  // returned value overwritten by the caller", call + "  // called again"},
			Detail: map[string]string{"fresh_result": hex.EncodeToString(fresh), "documented": hex.EncodeToString(want)}})
	}
	ids := append([]uint64{}, u64Bounds...)
	for len(ids) < n {
		ids = append(ids, g.u64())
	}
	// deposits through the real msg server: the escrow is the documented address, whatever callers did to addresses they were handed
	sc := NewL1Scenario(seed*31+7, 0, nil)
	e, c := sc.Env, sc.Case
	for b := uint64(1); b <= 2; b++ {
		if res := c.Do(sc.Create(e.User(1).Str, sc.NewConfig(1, 2, 7*sec))); !res.OK {
			panic("C17 result part: create failed: " + res.Err)
		}
	}
	total := map[uint64]int64{}
	rounds := 6
	if tier == "thorough" {
		rounds = 40
	}
	for k := 0; k < rounds; k++ {
		b := uint64(1 + k%2)
		handed := ophosttypes.BridgeAddress(b) // some caller obtains the escrow address ...
		if k%3 != 2 {
			scribble(handed) // ... and writes into its own value
		}
		amt := int64(10 + r.Intn(90))
		op := sc.op(L1Op{Kind: "deposit", Sender: e.User(3).Str, Bridge: b, To: "l2addr", Denom: sc.Denoms[0], Amt: big.NewInt(amt)})
		res := c.Do(op)
		rep.Hist(fmt.Sprintf("result-scribbled:deposit-after:%v", res.OK))
		rep.Ops++
		if res.OK {
			total[b] += amt
		}
		want := indepAddr(b)
		got := e.BK.GetBalance(e.Ctx, want, sc.Denoms[0]).Amount
		if !res.OK || !got.IsInt64() || got.Int64() != total[b] {
			rep.Violate(Violation{Case: k, Step: 1000 + k, What: fmt.Sprintf("after a caller wrote into a BridgeAddress(%d) value it had been returned, a deposit of %d through the msg server (ok=%v %s) leaves %s at the documented escrow address instead of %d: the escrow is no longer a function of the bridge id",
				b, amt, res.OK, res.Err, got, total[b]), Sig: "C17:result-aliased", Ops: append(l1OpsHuman(c.Ops), fmt.Sprintf("// before the last op: x := BridgeAddress(%d); overwrite x", b)),
				Detail: map[string]string{"documented_escrow": hex.EncodeToString(want), "BridgeAddress_now": hex.EncodeToString(ophosttypes.BridgeAddress(b))}})
			total[b] = 0
			if got.IsInt64() {
				total[b] = got.Int64()
			}
		}
		if fresh := ophosttypes.BridgeAddress(b); !bytes.Equal(fresh, want) {
			copy(fresh, want) // undo
		}
	}
	for i, id := range ids {
		// BridgeAddress returns a slice
		want := indepAddr(id)
		first := ophosttypes.BridgeAddress(id)
		scribble(first)
		second := ophosttypes.BridgeAddress(id)
		rep.Hist("result-scribbled:BridgeAddress")
		if !bytes.Equal(second, want) {
			bad(i, "BridgeAddress", fmt.Sprintf("BridgeAddress(%d)", id), second, want)
			copy(second, want) // undo the damage so that the rest of the run sees the documented address
		}
		// array results: the caller owns a copy; overwrite it and derive again
		a, b := g.nodePair()
		x := ophosttypes.GenerateNodeHash(a, b)
		scribble(x[:])
		y := ophosttypes.GenerateNodeHash(a, b)
		rep.Hist("result-scribbled:GenerateNodeHash")
		if !bytes.Equal(y[:], indepNode(a, b)) {
			bad(i, "GenerateNodeHash", fmt.Sprintf("GenerateNodeHash(%x, %x)", a, b), y[:], indepNode(a, b))
		}
		var leaf [32]byte
		copy(leaf[:], r.Bytes(32))
		ps := [][]byte{r.Bytes(32), r.Bytes(32), r.Bytes(32)}
		x = ophosttypes.GenerateRootHashFromProofs(leaf, ps)
		scribble(x[:])
		y = ophosttypes.GenerateRootHashFromProofs(leaf, ps)
		rep.Hist("result-scribbled:GenerateRootHashFromProofs")
		if !bytes.Equal(y[:], indepRoot(leaf[:], ps)) {
			bad(i, "GenerateRootHashFromProofs", fmt.Sprintf("GenerateRootHashFromProofs(%x, %v)", leaf, hexList(ps)), y[:], indepRoot(leaf[:], ps))
		}
		u1, u2, s1, s2 := g.u64(), g.u64(), g.str(), g.str()
		x = ophosttypes.GenerateWithdrawalHash(id, u1, s1, s2, s1, u2)
		scribble(x[:])
		y = ophosttypes.GenerateWithdrawalHash(id, u1, s1, s2, s1, u2)
		rep.Hist("result-scribbled:GenerateWithdrawalHash")
		if !bytes.Equal(y[:], indepLeaf(id, u1, s1, s2, s1, u2)) {
			bad(i, "GenerateWithdrawalHash", fmt.Sprintf("GenerateWithdrawalHash(%d, %d, %q, %q, %q, %d)", id, u1, s1, s2, s1, u2), y[:], indepLeaf(id, u1, s1, s2, s1, u2))
		}
		v, sr, bh := byte(r.Intn(256)), r.Bytes(32), r.Bytes(32)
		x = ophosttypes.GenerateOutputRoot(v, sr, bh)
		scribble(x[:])
		y = ophosttypes.GenerateOutputRoot(v, sr, bh)
		rep.Hist("result-scribbled:GenerateOutputRoot")
		if !bytes.Equal(y[:], outputRootOf(v, sr, bh)) {
			bad(i, "GenerateOutputRoot", fmt.Sprintf("GenerateOutputRoot(%d, %x, %x)", v, sr, bh), y[:], outputRootOf(v, sr, bh))
		}
		// strings are immutable: a second call must simply agree with the documented value
		d := ophosttypes.L2Denom(id, s1)
		_ = []byte(d)
		rep.Hist("result-recomputed:L2Denom")
		if d2 := ophosttypes.L2Denom(id, s1); d2 != indepDenom(id, s1) {
			bad(i, "L2Denom", fmt.Sprintf("L2Denom(%d, %q)", id, s1), []byte(d2), []byte(indepDenom(id, s1)))
		}
		rep.Ops += 12
	}
	rep.Notes = append(rep.Notes, fmt.Sprintf("result purity: %d ids / inputs per function with the returned bytes overwritten before the second call; %d deposits through the msg server after a caller wrote into BridgeAddress's result", len(ids), rounds))
}

// denomStructured: L1 denoms that look like something the chain might want to treat specially -
// the L2 prefix itself (stacked rollups: the L1 can be an OPinit L2), its case variants, other
// namespaces, a real L2 denom of another bridge, denoms equal up to case - several bridge ids
// each; the result must be the documented hash form and must depend on the bridge id.
func (g *c17Gen) denomStructured() {
	other := indepDenom(7, "uinit") // "l2/" + 64 hex digits
	ds := []string{"l2/", "l2/uinit", "l2/x", "L2/uinit", "l2", "l2uinit", "l2//", "ibc/27394FB092D2ECCD56123C74F36E4C1F926001CEADA9CA97EA622B25F41E5EB2", "ibc/",
		"factory/init1qqqsyqcyq5rqwzqfpg9scrgwpugpzysn2wvg8/sub", "factory/", other, strings.ToUpper(other), "l2/" + other, " l2/uinit",
		"uinit", "UINIT", "Uinit", "uinit ", "evm/0xdAC17F958D2ee523a2206206994597C13D831ec7", "move/944f8dd8dc49f96c25fea9849f16436dcfa6d564eec802f3ef7f8b3ea85368ff"}
	ids := []uint64{1, 2, 0, 1 << 63, ^uint64(0)}
	for _, d := range ds {
		seen := map[string]uint64{}
		for _, b := range ids {
			out := ophosttypes.L2Denom(b, d)
			g.add("denom", fmt.Sprintf("FDenom %s %s", coqU(b), coqStr(d)), fmt.Sprintf("L2Denom(%d, %q)", b, d), []byte(out), []byte(indepDenom(b, d)))
			if b0, dup := seen[out]; dup {
				g.rep.Violate(Violation{Case: len(g.cases), What: fmt.Sprintf("the L2 denom of %q does not depend on the bridge id (%d and %d)", d, b0, b), Sig: "C17:denom-not-injective",
					Ops: []string{fmt.Sprintf("L2Denom(%d, %q)", b0, d), fmt.Sprintf("L2Denom(%d, %q)", b, d)}, Detail: map[string]string{"both": out}})
			}
			seen[out] = b
		}
	}
}

// addrRuns: in one process and in this order, ids i, i+64, i+128, i+2^32, i+2^63 for several i
// (ids that collide in a table indexed by the low bits of the id).
func (g *c17Gen) addrRuns() {
	for _, i := range []uint64{0, 1, 5, 63, uint64(9 + g.r.Intn(40)), uint64(g.r.Intn(64))} {
		for _, id := range []uint64{i, i + 64, i + 128, i + 1<<32, i + 1<<63, i + 4096, i} {
			out := ophosttypes.BridgeAddress(id)
			g.add("addr", fmt.Sprintf("FAddr %s", coqU(id)), fmt.Sprintf("BridgeAddress(%d)", id), []byte(out), indepAddr(id))
		}
	}
}

// ---- results must not depend on EARLIER calls ----
// Sequences of derivations in one process in which an earlier call's inputs collide with a later
// call's when written as text without separators: (id, digits+denom) then (id*10^k+digits, denom),
// the empty denom, ids 1/10/11/100/101, denoms that start with digits; the same shape for
// BridgeAddress and the withdrawal hash.  Every result is compared with the independent derivation
// (`C17:format-mismatch`); then through the real paths: a TokenPairByL1Denom query first, then a
// deposit on the colliding bridge - the L2 denom in the recorded token pair and in the event must
// be the independent derivation (`C17:result-depends-on-earlier-calls`).
func (g *c17Gen) orderDependence(seed uint64) {
	den := func(b uint64, d string) {
		out := ophosttypes.L2Denom(b, d)
		g.add("denom", fmt.Sprintf("FDenom %s %s", coqU(b), coqStr(d)), fmt.Sprintf("L2Denom(%d, %q)", b, d), []byte(out), []byte(indepDenom(b, d)))
	}
	type pr struct {
		b uint64
		d string
	}
	for _, seq := range [][]pr{
		{{1, "0uc17m"}, {10, "uc17m"}, {1, "0uc17m"}},
		{{1, "1"}, {11, ""}, {1, "1"}},
		{{11, "vc17m"}, {1, "1vc17m"}},
		{{10, "0wc17m"}, {100, "wc17m"}, {1, "00wc17m"}},
		{{1, "01xc17m"}, {101, "xc17m"}, {10, "1xc17m"}},
		{{0, "7"}, {7, ""}, {0, "07"}, {70, ""}},
		{{1, "8446744073709551615"}, {18446744073709551615, ""}, {1844674407370955161, "5"}},
		{{12, "3/yc17m"}, {123, "/yc17m"}, {1, "23/yc17m"}},
		{{2, "uinit"}, {2, "uinit "}, {2, " uinit"}, {20, "uinit"}},
	} {
		for _, x := range seq {
			den(x.b, x.d)
		}
	}
	for _, id := range []uint64{1, 10, 11, 100, 101, 1, 110, 1001, 10, 1 << 32, 1<<32 + 1, 10 << 32, 11, 101, 100} {
		out := ophosttypes.BridgeAddress(id)
		g.add("addr", fmt.Sprintf("FAddr %s", coqU(id)), fmt.Sprintf("BridgeAddress(%d)", id), []byte(out), indepAddr(id))
	}
	type lf struct {
		b, s    uint64
		f, t, d string
		a       uint64
	}
	for _, x := range []lf{
		{1, 11, "a", "b", "c", 1}, {11, 1, "a", "b", "c", 1}, {1, 1, "1a", "b", "c", 1}, {111, 0, "a", "b", "c", 1},
		{1, 2, "ab", "c", "d", 3}, {1, 2, "a", "bc", "d", 3}, {1, 2, "a", "b", "cd", 3}, {1, 2, "", "abc", "d", 3}, {1, 2, "abc", "", "d", 3},
		{1, 2, "a", "b", "c3", 0}, {1, 2, "a", "b", "c", 30}, {12, 0, "a", "b", "c", 30}, {1, 20, "a", "b", "c", 30},
	} {
		out := ophosttypes.GenerateWithdrawalHash(x.b, x.s, x.f, x.t, x.d, x.a)
		g.add("leaf", fmt.Sprintf("FLeaf %s %s %s %s %s %s", coqU(x.b), coqU(x.s), coqStr(x.f), coqStr(x.t), coqStr(x.d), coqU(x.a)),
			fmt.Sprintf("GenerateWithdrawalHash(%d, %d, %q, %q, %q, %d)", x.b, x.s, x.f, x.t, x.d, x.a), out[:], indepLeaf(x.b, x.s, x.f, x.t, x.d, x.a))
	}
	// the real paths: query first, then a deposit on the colliding bridge
	sc := NewL1Scenario(seed*53+9, 0, nil)
	e, c := sc.Env, sc.Case
	for b := 1; b <= 11; b++ {
		if res := c.Do(sc.Create(e.User(1).Str, sc.NewConfig(1, 2, 7*sec))); !res.OK {
			panic("C17 order part: create failed: " + res.Err)
		}
	}
	for k, x := range []struct {
		qb uint64
		qd string
		b  uint64
		d  string
	}{{1, "0qc17m", 10, "qc17m"}, {1, "1rc17m", 11, "rc17m"}, {10, "sc17m", 1, "sc17m"}} {
		e.Fund(e.User(3).Addr, sdk.NewCoins(sdk.NewInt64Coin(x.d, 1000)))
		q, err := e.Q.TokenPairByL1Denom(e.Ctx, &ophosttypes.QueryTokenPairByL1DenomRequest{BridgeId: x.qb, L1Denom: x.qd})
		hist := []string{fmt.Sprintf("Query/TokenPairByL1Denom(bridge %d, %q)", x.qb, x.qd)}
		if err == nil && q.TokenPair.L2Denom != indepDenom(x.qb, x.qd) {
			g.rep.Violate(Violation{Case: k, Step: 2000 + k, What: "TokenPairByL1Denom returns an L2 denom that is not the documented derivation", Sig: "C17:result-depends-on-earlier-calls", Ops: hist,
				Detail: map[string]string{"returned": q.TokenPair.L2Denom, "documented": indepDenom(x.qb, x.qd)}})
		}
		op := sc.op(L1Op{Kind: "deposit", Sender: e.User(3).Str, Bridge: x.b, To: "l2addr", Denom: x.d, Amt: big.NewInt(5)})
		res := c.Do(op)
		g.rep.Hist(fmt.Sprintf("order:deposit-after-query:%v", res.OK))
		g.rep.Ops += 2
		want := indepDenom(x.b, x.d)
		evDenom := ""
		for _, ev := range res.Events {
			if ev.Type == ophosttypes.EventTypeInitiateTokenDeposit {
				evDenom = attr(ev, ophosttypes.AttributeKeyL2Denom)
			}
		}
		recorded := ""
		if tp, err := e.Q.TokenPairs(e.Ctx, &ophosttypes.QueryTokenPairsRequest{BridgeId: x.b}); err == nil {
			for _, p := range tp.TokenPairs {
				if p.L1Denom == x.d {
					recorded = p.L2Denom
				}
			}
		}
		if !res.OK || evDenom != want || recorded != want {
			g.rep.Violate(Violation{Case: k, Step: 2100 + k, What: fmt.Sprintf("after the query %s, the deposit of %q on bridge %d (ok=%v) emits L2 denom %q and records %q; the documented derivation is %q: the result depends on earlier calls",
				hist[0], x.d, x.b, res.OK, evDenom, recorded, want), Sig: "C17:result-depends-on-earlier-calls", Ops: append(append(l1OpsHuman(c.Ops[:len(c.Ops)-1]), "// "+hist[0]), l1OpsHuman(c.Ops[len(c.Ops)-1:])...)})
		}
	}
}

func (g *c17Gen) addr() {
	b := g.u64()
	out := ophosttypes.BridgeAddress(b)
	g.add("addr", fmt.Sprintf("FAddr %s", coqU(b)), fmt.Sprintf("BridgeAddress(%d)", b), []byte(out), indepAddr(b))
}

// ---- vectors pinned from Python's hashlib (third implementation) ----
func (g *c17Gen) pinned() {
	var vs []map[string]interface{}
	if err := json.Unmarshal(c17VectorsJSON, &vs); err != nil {
		panic(err)
	}
	hx := func(v interface{}) []byte {
		b, err := hex.DecodeString(v.(string))
		if err != nil {
			panic(err)
		}
		return b
	}
	un := func(v interface{}) uint64 {
		n, err := strconv.ParseUint(v.(string), 10, 64)
		if err != nil {
			panic(err)
		}
		return n
	}
	for i, v := range vs {
		want := hx(v["out"])
		var got []byte
		var coqIn, human string
		kind := v["kind"].(string)
		switch kind {
		case "sha3":
			m := hx(v["m"])
			got = h3(m)
			coqIn, human = "FSha3 "+coqBytes(m), fmt.Sprintf("sha3_256(%x)", m)
		case "sha256":
			m := hx(v["m"])
			x := sha256.Sum256(m)
			got = x[:]
			coqIn, human = "FSha256 "+coqBytes(m), fmt.Sprintf("sha256(%x)", m)
		case "leaf":
			b, s, a := un(v["bridge"]), un(v["seq"]), un(v["amount"])
			f, t, d := string(hx(v["sender"])), string(hx(v["receiver"])), string(hx(v["denom"]))
			x := ophosttypes.GenerateWithdrawalHash(b, s, f, t, d, a)
			got = x[:]
			coqIn = fmt.Sprintf("FLeaf %s %s %s %s %s %s", coqU(b), coqU(s), coqStr(f), coqStr(t), coqStr(d), coqU(a))
			human = fmt.Sprintf("GenerateWithdrawalHash(%d, %d, %q, %q, %q, %d)", b, s, f, t, d, a)
		case "node":
			a, b := hx(v["a"]), hx(v["b"])
			x := ophosttypes.GenerateNodeHash(a, b)
			got = x[:]
			coqIn, human = fmt.Sprintf("FNode %s %s", coqBytes(a), coqBytes(b)), fmt.Sprintf("GenerateNodeHash(%x, %x)", a, b)
		case "root":
			var la [32]byte
			copy(la[:], hx(v["leaf"]))
			var ps [][]byte
			var cps []string
			for _, p := range v["proofs"].([]interface{}) {
				ps = append(ps, hx(p))
				cps = append(cps, coqBytes(hx(p)))
			}
			x := ophosttypes.GenerateRootHashFromProofs(la, ps)
			got = x[:]
			coqIn, human = fmt.Sprintf("FRoot %s %s", coqBytes(la[:]), coqList(cps)), fmt.Sprintf("GenerateRootHashFromProofs(%x, %v)", la, hexList(ps))
		case "out":
			ver := un(v["version"])
			sr, bh := hx(v["sroot"]), hx(v["bhash"])
			x := ophosttypes.GenerateOutputRoot(byte(ver), sr, bh)
			got = x[:]
			coqIn, human = fmt.Sprintf("FOut %s %s %s", coqU(ver), coqBytes(sr), coqBytes(bh)), fmt.Sprintf("GenerateOutputRoot(%d, %x, %x)", ver, sr, bh)
		case "denom":
			b, d := un(v["bridge"]), string(hx(v["l1denom"]))
			got = []byte(ophosttypes.L2Denom(b, d))
			coqIn, human = fmt.Sprintf("FDenom %s %s", coqU(b), coqStr(d)), fmt.Sprintf("L2Denom(%d, %q)", b, d)
		case "addr":
			b := un(v["bridge"])
			got = []byte(ophosttypes.BridgeAddress(b))
			coqIn, human = fmt.Sprintf("FAddr %s", coqU(b)), fmt.Sprintf("BridgeAddress(%d)", b)
		default:
			panic("unknown vector kind " + kind)
		}
		if !bytes.Equal(got, want) {
			g.rep.Violate(Violation{Case: len(g.cases) + 1, Step: i, What: "pinned vector (Python hashlib): the chain's value differs", Sig: "C17:pinned-vector", Ops: []string{human},
				Detail: map[string]string{"chain": hex.EncodeToString(got), "pinned": hex.EncodeToString(want)}})
		}
		// the Coq case expects the PINNED value: the model is checked against Python, not against Go
		g.add("pinned-"+kind, coqIn, human, want, nil)
	}
}

// ---- the same claims through MsgFinalizeTokenWithdrawal under each layout ----
func c17FinalizeLayouts(rep *Report, seed uint64, nTrees int) {
	sc := NewL1Scenario(seed, 0, nil)
	e, c := sc.Env, sc.Case
	must := func(o L1Op) {
		if r := c.Do(o); !r.OK {
			panic("C17 setup op failed: " + o.Kind + ": " + r.Err)
		}
	}
	must(sc.Create(e.User(1).Str, sc.NewConfig(1, 2, 7*sec)))
	for _, d := range sc.Denoms {
		must(sc.op(L1Op{Kind: "deposit", Sender: e.User(3).Str, Bridge: 1, To: "l2addr", Denom: d, Amt: big.NewInt(50000)}))
	}
	// the escrow also holds 4 * 2^64 of the first denom (minted to it directly): withdrawals whose
	// amounts use the whole 64-bit field of the leaf format must be payable
	var whale sdk.Coins
	for _, d := range sc.Denoms {
		whale = append(whale, sdk.NewCoin(d, math.NewIntFromBigInt(new(big.Int).Lsh(big.NewInt(1), 67))))
	}
	e.Fund(ophosttypes.BridgeAddress(1), whale.Sort())
	setupNote := "// before the history: 2^67 of every denom minted to the escrow of bridge 1 (a whale escrow: no claim below is refused for lack of funds)"
	l2 := uint64(0)
	for t := 0; t < nTrees+1; t++ {
		n := []int{1, 2, 3, 5, 8, 13, 21}[(t+int(seed))%7]
		var pt *ProposedTree
		if t == 0 { // amounts 2^63-1, 2^63, 2^63+1, 2^64-1
			var ws []Withdrawal
			for _, a := range []*big.Int{new(big.Int).SetUint64(1<<63 - 1), new(big.Int).SetUint64(1 << 63), new(big.Int).SetUint64(1<<63 + 1), new(big.Int).SetUint64(^uint64(0))} {
				if sc.NextWSeq[1] == 0 {
					sc.NextWSeq[1] = 1
				}
				ws = append(ws, Withdrawal{Bridge: 1, Seq: sc.NextWSeq[1], From: "l2user1", To: e.User(uint64(1 + len(ws))).Str, Denom: sc.Denoms[0], Amt: a})
				sc.NextWSeq[1]++
			}
			pt = &ProposedTree{Bridge: 1, Tree: BuildTree(ws), Version: 1, BHash: sc.R.Bytes(32)}
			pt.Root = outputRootOf(pt.Version, pt.Tree.Root(), pt.BHash)
		} else {
			pt = sc.MakeTree(1, n)
		}
		pt.Idx = uint64(t + 1)
		l2 += 10
		must(sc.op(L1Op{Kind: "propose", Sender: e.User(1).Str, Bridge: 1, Idx: pt.Idx, L2: l2, Root: pt.Root}))
		sc.Trees = append(sc.Trees, pt)
	}
	sc.Advance(8 * sec)
	base := e.Ctx
	setupOps := append(l1OpsHuman(c.Ops), setupNote)
	nth := 0
	for _, pt := range sc.Trees {
		for i := range pt.Tree.Ws {
			for variant := 0; variant < 4; variant++ { // 2: amount + k*2^64, 3: amount + 2^63 / 2^32
				nth++ // 0: the valid claim, 1: one proof element corrupted (or amount changed for single-leaf trees)
				op := sc.Claim(pt, i, e.User(4).Str)
				if variant == 2 { // congruent to the committed amount modulo 2^64: does not fit the 8-byte field of the leaf
					op.Amt = new(big.Int).Add(op.Amt, new(big.Int).Mul(big.NewInt(int64(1+nth%3)), new(big.Int).Lsh(big.NewInt(1), 64)))
				}
				if variant == 3 { // congruent modulo 2^63 / 2^32: another leaf
					op.Amt = new(big.Int).Add(op.Amt, new(big.Int).Lsh(big.NewInt(1), []uint{63, 32}[nth%2]))
				}
				if variant == 1 {
					if len(op.Proofs) > 0 {
						j := sc.R.Intn(len(op.Proofs))
						op.Proofs[j] = append([]byte{}, op.Proofs[j]...)
						op.Proofs[j][sc.R.Intn(32)] ^= 1 << uint(sc.R.Intn(8))
					} else {
						op.Amt = new(big.Int).Add(op.Amt, big.NewInt(1))
					}
				}
				ins := append([][]byte{op.Version, op.SRoot, op.BHash}, op.Proofs...)
				human := func() string { internOff = true; defer func() { internOff = false }(); return op.Coq() }()
				var refObs string
				for k := 0; k < nLayouts; k++ {
					s, backing := layOut(k, ins)
					before := snapshot(backing)
					o := op
					o.Version, o.SRoot, o.BHash, o.Proofs = s[0], s[1], s[2], s[3:]
					branch, _ := base.CacheContext()
					e.Ctx = branch
					r := e.L1Exec(o)
					obs := e.L1Obs(c.Track, r).Coq()
					e.Ctx = base
					rep.Hist(fmt.Sprintf("finalize-layout:%s:%v", layoutNames[k], r.OK))
					if !sameBufs(before, backing) {
						rep.Violate(Violation{Case: 0, Step: k, What: "MsgFinalizeTokenWithdrawal modified the message's byte fields under layout " + layoutNames[k], Sig: "C17:input-modified",
							Ops: []string{human}, Detail: map[string]interface{}{"buffers_before": hexList(before), "buffers_after": hexList(backing)}})
					}
					if r.OK != (variant == 0) {
						what := "a withdrawal committed with the documented leaf format (amount " + op.Amt.String() + ") and claimed with an honest proof is rejected"
						if variant == 1 {
							what = "a claim with a corrupted proof is accepted"
						}
						if variant >= 2 {
							what = "a claim of amount " + op.Amt.String() + " with the proof of the committed leaf of amount " + pt.Tree.Ws[i].Amt.String() + " is accepted (the documented leaf has an 8-byte amount; the independent verifier refuses it)"
						}
						rep.Violate(Violation{Case: nth, Step: k, What: fmt.Sprintf("%s (layout %s): OK=%v %s", what, layoutNames[k], r.OK, r.Err), Sig: "C17:finalize-verdict",
							Ops: append(append([]string{}, setupOps...), human)})
					}
					if k == 0 {
						refObs = obs
					} else if obs != refObs {
						rep.Violate(Violation{Case: 0, Step: k, What: "MsgFinalizeTokenWithdrawal: verdict or effects differ between memory layouts of the same message bytes (" + layoutNames[k] + ")", Sig: "C17:layout-dependent",
							Ops: []string{human}})
					}
				}
				rep.Ops += nLayouts
			}
		}
	}
}

func init() { register("C17", genC17) }

func genC17(seed uint64, tier string, outdir string) *Report {
	rep := NewReport("C17", seed, tier)
	rep.Rule = "a case is one input of one exported format function (or one pinned vector); distinct by hash of the printed call; every case is non-trivial: " +
		"the chain's output is compared with an independent Go implementation, with the Coq definitions, and - for slice arguments - across five memory layouts"
	g := &c17Gen{rep: rep, r: NewRng(seed*7919 + 17)}
	mul := 2
	if tier == "thorough" {
		mul = 24
	}
	g.pinned()
	g.orderDependence(seed)
	for i := 0; i < 110*mul; i++ {
		g.leaf()
	}
	for i := 0; i < 260*mul; i++ {
		g.node()
	}
	for i := 0; i < 90*mul; i++ {
		g.root()
	}
	for i := 0; i < 110*mul; i++ {
		g.outRoot()
	}
	g.denomStructured()
	g.denomDense()
	for i := 0; i < 110*mul; i++ {
		g.denom()
	}
	g.addrRuns()
	for i := 0; i < 70*mul; i++ {
		g.addr()
	}
	c17Concurrent(rep, seed, tier)
	nTrees := 7
	if tier == "thorough" {
		nTrees = 28
	}
	c17FinalizeLayouts(rep, seed, nTrees)
	c17ResultAliasing(rep, seed, tier) // last: with shared results it would disturb the other parts
	rep.Notes = append(rep.Notes, fmt.Sprintf("%d vectors pinned from Python hashlib (harness/corpus/c17_vectors.json); %d layouts per slice-taking call; %d trees claimed through MsgFinalizeTokenWithdrawal under every layout",
		strings.Count(string(c17VectorsJSON), `"kind"`), nLayouts, nTrees))
	texts := make([]string, len(g.cases))
	for i, c := range g.cases {
		texts[i] = c.Coq()
	}
	writeShards(outdir, "C17", fmtCaseHeader, "run_fmt", "fmt_in", texts, 16, rep)
	return rep
}
