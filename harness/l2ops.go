package main

import (
	"fmt"
	"math/big"
	"strconv"

	"cosmossdk.io/math"
	sdk "github.com/cosmos/cosmos-sdk/types"
	"github.com/cosmos/cosmos-sdk/types/query"
	banktypes "github.com/cosmos/cosmos-sdk/x/bank/types"

	opchildtypes "github.com/initia-labs/OPinit/x/opchild/types"
	ophosttypes "github.com/initia-labs/OPinit/x/ophost/types"
)

// ---- hook payload description (mirrors Model/L2.v hookp) ----
// one message of the hook tx (Model/L2.v hmsg): a bank MsgSend to account To, or - with
// Withdraw set - a MsgInitiateTokenWithdrawal of the hook signer to the L1 address ToL1
type HookSend struct {
	To       uint64
	Denom    string
	Amt      *big.Int
	Withdraw bool
	Sender   string // withdrawal: the Sender string (the signer's address)
	ToL1     string // withdrawal: the L1 recipient string
}
type Hook struct {
	Kind   string // "none" | "garbage" | "tx"
	Signer uint64
	TxSeq  uint64
	SigOK  bool
	Sends  []HookSend
	Raw    []byte // what is put in MsgFinalizeTokenDeposit.Data
	Note   string // Kind "rawtx": description of the messages
}

func (h Hook) Coq() string {
	switch h.Kind {
	case "none":
		return "HNone"
	case "garbage":
		return "HGarbage"
	case "rawtx": // a tx of arbitrary messages: outside the model's hook language, monitor-only
		return fmt.Sprintf("(HTx %s %s %s [] (* raw tx: %s *))", coqU(h.Signer), coqU(h.TxSeq), coqBool(h.SigOK), h.Note)
	}
	items := []string{}
	for _, s := range h.Sends {
		if s.Withdraw {
			items = append(items, fmt.Sprintf("HWithdraw %s %s %s %s", coqStr(s.Sender), coqStr(s.ToL1), coqStr(s.Denom), coqZ(s.Amt)))
		} else {
			items = append(items, fmt.Sprintf("HSend %s %s %s", coqU(s.To), coqStr(s.Denom), coqZ(s.Amt)))
		}
	}
	return fmt.Sprintf("(HTx %s %s %s %s)", coqU(h.Signer), coqU(h.TxSeq), coqBool(h.SigOK), coqList(items))
}

// ---- L2 operations (mirrors Model/L2.v msg) ----
type L2Op struct {
	Kind string
	// finalize deposit
	Sender, From, To, Denom, Base string
	Amt                           *big.Int
	Seq, Height                   uint64
	Hook                          Hook
	// bank send
	FromID, ToID uint64
	// set bridge info
	Info *BInfo
	// params
	Params *L2Params
	// validators
	OpID  uint64 // 0 = undecodable operator string
	KeyID uint64
	// spend
	Coins []HookSend // To unused
	// exec
	Inner []L2Op
	// fault-injected histories (monitor-only): fail the FaultAt-th keeper call of this message
	FaultAt    int
	FaultPanic bool
}

type BInfo struct {
	ID                  uint64
	Addr, Chain, Client string
	CfgOK, Oracle       bool
	Cfg                 []byte
	Real                opchildtypes.BridgeInfo
}

func (b *BInfo) Coq() string {
	return fmt.Sprintf("{| bi_id := %s; bi_addr := %s; bi_chain := %s; bi_client := %s; bi_cfg_ok := %s; bi_oracle := %s; bi_cfg := %s |}",
		coqU(b.ID), coqStr(b.Addr), coqStr(b.Chain), coqStr(b.Client), coqBool(b.CfgOK), coqBool(b.Oracle), coqBytes(b.Cfg))
}

type GasPrice struct {
	Denom string
	Amt   *big.Int // in units of 10^-18
}
type L2Params struct {
	Admin     string
	Execs     []string
	MaxV      uint64
	Hist      uint64
	MinGas    []GasPrice
	Whitelist []string
	HookGas   uint64
}

func (p *L2Params) Coq() string {
	ex := []string{}
	for _, e := range p.Execs {
		ex = append(ex, coqStr(e))
	}
	mg := []string{}
	for _, g := range p.MinGas {
		mg = append(mg, fmt.Sprintf("(%s, %s)", coqStr(g.Denom), coqZ(g.Amt)))
	}
	wl := []string{}
	for _, e := range p.Whitelist {
		wl = append(wl, coqStr(e))
	}
	return fmt.Sprintf("{| p_admin := %s; p_execs := %s; p_maxv := %s; p_hist := %s; p_mingas := %s; p_whitelist := %s; p_hookgas := %s |}",
		coqStr(p.Admin), coqList(ex), coqU(p.MaxV), coqU(p.Hist), coqList(mg), coqList(wl), coqU(p.HookGas))
}
func (p *L2Params) Real() opchildtypes.Params {
	var mg sdk.DecCoins
	for _, g := range p.MinGas {
		mg = append(mg, sdk.DecCoin{Denom: g.Denom, Amount: math.LegacyNewDecFromBigIntWithPrec(g.Amt, 18)})
	}
	return opchildtypes.Params{Admin: p.Admin, BridgeExecutors: append([]string{}, p.Execs...), MaxValidators: uint32(p.MaxV),
		HistoricalEntries: uint32(p.Hist), MinGasPrices: mg, FeeWhitelist: append([]string{}, p.Whitelist...), HookMaxGas: p.HookGas}
}

func coqOptU(v uint64) string {
	if v == 0 {
		return "None"
	}
	return "(Some " + coqU(v) + ")"
}

func (o L2Op) Coq() string {
	switch o.Kind {
	case "fdep":
		return fmt.Sprintf("MFinalizeDeposit {| fd_sender := %s; fd_from := %s; fd_to := %s; fd_denom := %s; fd_amt := %s; fd_seq := %s; fd_height := %s; fd_base := %s; fd_hook := %s |}",
			coqStr(o.Sender), coqStr(o.From), coqStr(o.To), coqStr(o.Denom), coqZ(o.Amt), coqU(o.Seq), coqU(o.Height), coqStr(o.Base), o.Hook.Coq())
	case "withdraw":
		return fmt.Sprintf("MWithdraw %s %s %s %s", coqStr(o.Sender), coqStr(o.To), coqStr(o.Denom), coqZ(o.Amt))
	case "send":
		return fmt.Sprintf("MBankSend %s %s %s %s", coqU(o.FromID), coqU(o.ToID), coqStr(o.Denom), coqZ(o.Amt))
	case "setinfo":
		return fmt.Sprintf("MSetBridgeInfo %s %s", coqStr(o.Sender), o.Info.Coq())
	case "params":
		return fmt.Sprintf("MUpdateParams %s %s", coqStr(o.Sender), o.Params.Coq())
	case "addval":
		return fmt.Sprintf("MAddValidator %s %s %s", coqStr(o.Sender), coqOptU(o.OpID), coqU(o.KeyID))
	case "rmval":
		return fmt.Sprintf("MRemoveValidator %s %s", coqStr(o.Sender), coqOptU(o.OpID))
	case "spend":
		cs := []string{}
		for _, c := range o.Coins {
			cs = append(cs, fmt.Sprintf("(%s, %s)", coqStr(c.Denom), coqZ(c.Amt)))
		}
		return fmt.Sprintf("MSpendFeePool %s %s %s", coqStr(o.Sender), coqStr(o.To), coqList(cs))
	case "exec":
		in := []string{}
		for _, m := range o.Inner {
			in = append(in, "("+m.Coq()+")")
		}
		return fmt.Sprintf("MExecute %s %s", coqStr(o.Sender), coqList(in))
	}
	panic("unknown op kind " + o.Kind)
}

func coinOf(denom string, amt *big.Int) sdk.Coin {
	return sdk.Coin{Denom: denom, Amount: math.NewIntFromBigInt(amt)}
}

// RealMsg builds the sdk.Msg for an op (nil for direct keeper calls).
func (e *L2Env) RealMsg(o L2Op) sdk.Msg {
	switch o.Kind {
	case "fdep":
		return &opchildtypes.MsgFinalizeTokenDeposit{Sender: o.Sender, From: o.From, To: o.To, Amount: coinOf(o.Denom, o.Amt),
			Sequence: o.Seq, Height: o.Height, BaseDenom: o.Base, Data: o.Hook.Raw}
	case "withdraw":
		return &opchildtypes.MsgInitiateTokenWithdrawal{Sender: o.Sender, To: o.To, Amount: coinOf(o.Denom, o.Amt)}
	case "setinfo":
		return &opchildtypes.MsgSetBridgeInfo{Sender: o.Sender, BridgeInfo: o.Info.Real}
	case "params":
		p := o.Params.Real()
		return &opchildtypes.MsgUpdateParams{Authority: o.Sender, Params: &p}
	case "addval":
		opStr := "notavaloper"
		if o.OpID != 0 {
			opStr = e.ValOps[o.OpID-1].String()
		}
		m, err := opchildtypes.NewMsgAddValidator("m", o.Sender, opStr, e.ValKeys[o.KeyID-1])
		if err != nil {
			panic(err)
		}
		return m
	case "rmval":
		opStr := "notavaloper"
		if o.OpID != 0 {
			opStr = e.ValOps[o.OpID-1].String()
		}
		return &opchildtypes.MsgRemoveValidator{Authority: o.Sender, ValidatorAddress: opStr}
	case "spend":
		var cs sdk.Coins
		for _, c := range o.Coins {
			cs = append(cs, coinOf(c.Denom, c.Amt))
		}
		return &opchildtypes.MsgSpendFeePool{Authority: o.Sender, Recipient: o.To, Amount: cs}
	case "exec":
		var inner []sdk.Msg
		for _, m := range o.Inner {
			inner = append(inner, e.RealMsg(m))
		}
		m, err := opchildtypes.NewMsgExecuteMessages(o.Sender, inner)
		if err != nil {
			panic(err)
		}
		// round-trip through the codec so that cached values are what a decoded tx has
		bz := e.Enc.Marshaler.MustMarshal(m)
		var m2 opchildtypes.MsgExecuteMessages
		e.Enc.Marshaler.MustUnmarshal(bz, &m2)
		if err := m2.UnpackInterfaces(e.Enc.InterfaceRegistry); err != nil {
			panic(err)
		}
		return &m2
	}
	return nil
}

// L2Exec executes one op atomically on the implementation.
func (e *L2Env) L2Exec(o L2Op) ExecResult {
	return execAtomic(e.Ctx, func(ctx sdk.Context) (interface{}, error) {
		switch o.Kind {
		case "send":
			return nil, e.BK.SendCoins(ctx, e.AddrOf(o.FromID), e.AddrOf(o.ToID), sdk.Coins{coinOf(o.Denom, o.Amt)})
		case "fdep":
			return e.Msg.FinalizeTokenDeposit(ctx, e.RealMsg(o).(*opchildtypes.MsgFinalizeTokenDeposit))
		case "withdraw":
			return e.Msg.InitiateTokenWithdrawal(ctx, e.RealMsg(o).(*opchildtypes.MsgInitiateTokenWithdrawal))
		case "setinfo":
			return e.Msg.SetBridgeInfo(ctx, e.RealMsg(o).(*opchildtypes.MsgSetBridgeInfo))
		case "params":
			return e.Msg.UpdateParams(ctx, e.RealMsg(o).(*opchildtypes.MsgUpdateParams))
		case "addval":
			return e.Msg.AddValidator(ctx, e.RealMsg(o).(*opchildtypes.MsgAddValidator))
		case "rmval":
			return e.Msg.RemoveValidator(ctx, e.RealMsg(o).(*opchildtypes.MsgRemoveValidator))
		case "spend":
			return e.Msg.SpendFeePool(ctx, e.RealMsg(o).(*opchildtypes.MsgSpendFeePool))
		case "exec":
			return e.Msg.ExecuteMessages(ctx, e.RealMsg(o).(*opchildtypes.MsgExecuteMessages))
		}
		panic("unknown op " + o.Kind)
	})
}

// ---- observations ----
type WEvent struct {
	Seq                    uint64
	From, To, Denom, Base  string
	Amt                    *big.Int
}
type DEvent struct {
	Seq     uint64
	Success bool
}

func attr(ev sdk.Event, key string) string {
	for _, a := range ev.Attributes {
		if a.Key == key {
			return a.Value
		}
	}
	return ""
}

func parseL2Events(evs sdk.Events) (ws []WEvent, ds []DEvent) {
	for _, ev := range evs {
		switch ev.Type {
		case opchildtypes.EventTypeInitiateTokenWithdrawal:
			seq, _ := strconv.ParseUint(attr(ev, opchildtypes.AttributeKeyL2Sequence), 10, 64)
			amt, _ := new(big.Int).SetString(attr(ev, opchildtypes.AttributeKeyAmount), 10)
			ws = append(ws, WEvent{seq, attr(ev, opchildtypes.AttributeKeyFrom), attr(ev, opchildtypes.AttributeKeyTo),
				attr(ev, opchildtypes.AttributeKeyDenom), attr(ev, opchildtypes.AttributeKeyBaseDenom), amt})
		case opchildtypes.EventTypeFinalizeTokenDeposit:
			seq, _ := strconv.ParseUint(attr(ev, opchildtypes.AttributeKeyL1Sequence), 10, 64)
			ds = append(ds, DEvent{seq, attr(ev, opchildtypes.AttributeKeySuccess) == "true"})
		}
	}
	return
}

// L2Obs projects the observables compared with the model after one step.
type L2Track struct {
	Accts  []uint64
	Denoms []string
}

func (e *L2Env) L2Obs(tr L2Track, r ExecResult) Ov {
	var res Ov
	if !r.OK {
		res = OS{"ERR"}
	} else {
		var rv Ov = OS{"-"}
		switch x := r.Resp.(type) {
		case *opchildtypes.MsgFinalizeTokenDepositResponse:
			if x.Result == opchildtypes.NOOP {
				rv = OS{"NOOP"}
			} else if x.Result == opchildtypes.SUCCESS {
				rv = OS{"SUCCESS"}
			} else {
				rv = OS{"UNSPECIFIED"}
			}
		case *opchildtypes.MsgInitiateTokenWithdrawalResponse:
			rv = onU(x.Sequence)
		}
		res = ol(OS{"OK"}, rv)
	}
	ctx := e.Ctx
	// Observables with a public gRPC query are read through the real Querier (what relayers and
	// users see); the keeper state is read as well and every difference is recorded in
	// e.QueryDiffs for the model-free monitors (l2QueryMonitor).
	n1k, err := e.K.GetNextL1Sequence(ctx)
	if err != nil {
		panic(err)
	}
	n2k, err := e.K.GetNextL2Sequence(ctx)
	if err != nil {
		panic(err)
	}
	n1, n2 := n1k, n2k
	if e.Q != nil {
		diff := func(format string, a ...interface{}) {
			if len(e.QueryDiffs) < 50 {
				e.QueryDiffs = append(e.QueryDiffs, fmt.Sprintf(format, a...))
			}
		}
		if r, err := e.Q.NextL1Sequence(ctx, &opchildtypes.QueryNextL1SequenceRequest{}); err != nil {
			diff("Query/NextL1Sequence fails: %v", err)
		} else if n1 = r.NextL1Sequence; n1 != n1k {
			diff("Query/NextL1Sequence answers %d, the handler expects %d", n1, n1k)
		}
		if r, err := e.Q.NextL2Sequence(ctx, &opchildtypes.QueryNextL2SequenceRequest{}); err != nil {
			diff("Query/NextL2Sequence fails: %v", err)
		} else if n2 = r.NextL2Sequence; n2 != n2k {
			diff("Query/NextL2Sequence answers %d, the next withdrawal gets %d", n2, n2k)
		}
		for _, d := range tr.Denoms {
			stored, serr := e.K.DenomPairs.Get(ctx, d)
			r, qerr := e.Q.BaseDenom(ctx, &opchildtypes.QueryBaseDenomRequest{Denom: d})
			if (serr == nil) != (qerr == nil) || (qerr == nil && r.BaseDenom != stored) {
				diff("Query/BaseDenom(%s) = (%v, %v), stored denom pair = (%q, %v)", d, r, qerr, stored, serr)
			}
		}
		if ps, err := e.K.GetParams(ctx); err == nil {
			if r, qerr := e.Q.Params(ctx, &opchildtypes.QueryParamsRequest{}); qerr != nil || r.Params.String() != ps.String() {
				diff("Query/Params differs from the stored params (%v)", qerr)
			}
		}
		bi, berr := e.K.BridgeInfo.Get(ctx)
		if r, qerr := e.Q.BridgeInfo(ctx, &opchildtypes.QueryBridgeInfoRequest{}); (berr == nil) != (qerr == nil) || (qerr == nil && r.BridgeInfo.String() != bi.String()) {
			diff("Query/BridgeInfo differs from the stored bridge info (%v / %v)", qerr, berr)
		}
		if vals, err := e.K.GetAllValidators(ctx); err == nil {
			if r, qerr := e.Q.Validators(ctx, &opchildtypes.QueryValidatorsRequest{Pagination: &query.PageRequest{Limit: 1000000}}); qerr != nil || len(r.Validators) != len(vals) {
				diff("Query/Validators differs from the stored validators (%v)", qerr)
			} else {
				for i := range vals {
					if vals[i].String() != r.Validators[i].String() {
						diff("Query/Validators[%d] differs from the stored validator", i)
					}
				}
			}
		}
	}
	var bals, sups, prs, sqs, wevs, devs []Ov
	for _, a := range tr.Accts {
		for _, d := range tr.Denoms {
			bals = append(bals, ozB(e.BK.GetBalance(ctx, e.AddrOf(a), d).Amount.BigInt()))
		}
		if a < ModOpchild {
			acc := e.AK.GetAccount(ctx, e.AddrOf(a))
			var s uint64
			if acc != nil {
				s = acc.GetSequence()
			}
			sqs = append(sqs, onU(s))
		}
	}
	for _, d := range tr.Denoms {
		sups = append(sups, ozB(e.BK.GetSupply(ctx, d).Amount.BigInt()))
		base, err := e.K.DenomPairs.Get(ctx, d) // the stored map itself, not the query that may fall back
		if err != nil {
			prs = append(prs, ol())
		} else {
			prs = append(prs, ol(OB{[]byte(base)}))
		}
	}
	ws, ds := parseL2Events(r.Events)
	for _, w := range ws {
		wevs = append(wevs, ol(onU(w.Seq), OB{[]byte(w.From)}, OB{[]byte(w.To)}, OB{[]byte(w.Denom)}, OB{[]byte(w.Base)}, ozB(w.Amt)))
	}
	for _, d := range ds {
		devs = append(devs, ol(onU(d.Seq), obool(d.Success)))
	}
	return ol(res, onU(n1), onU(n2), OL{bals}, OL{sups}, OL{prs}, OL{sqs}, OL{wevs}, OL{devs})
}

var _ = ophosttypes.L2Denom
var _ = banktypes.ModuleName
