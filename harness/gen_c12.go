package main

import (
	"bytes"
	"errors"
	"fmt"
	"math/big"
	"strings"

	sdk "github.com/cosmos/cosmos-sdk/types"
	sdkerrors "github.com/cosmos/cosmos-sdk/types/errors"

	opchild "github.com/initia-labs/OPinit/x/opchild"
	opchildtypes "github.com/initia-labs/OPinit/x/opchild/types"
	ophosttypes "github.com/initia-labs/OPinit/x/ophost/types"
)

// C12: authorization is complete and follows the current role holder (L1 and L2); the L2
// bridge binding is immutable; ExecuteMessages is all-or-nothing.
//
// One case = one history on a fresh instance: a scripted set-up, then probes.  A probe is one
// message of a permissioned kind whose DECLARED-SIGNER field holds a candidate (current / past
// role holder, governance, module authority, admin, stranger, upper-cased bech32 spelling,
// invalid string) while every other address field holds a different role.  Successful probes
// rotate roles, so later probes run on rotated states; after every successful rotation the old
// holder and the new holder are probed at once.
//
// Compared with the model: verdict + observation block after every message (L1: Model/TraceL1,
// L2: Model/TraceC12 = TraceL2 + admin / executors / bridge info / validator summary).
// Model-free monitors (the table written in Go, roles read from the implementation's own
// queries just before the message):
//   C12:l1-ok-not-allowed / C12:l2-ok-not-allowed   OK although the signer holds no allowed role
//   C12:l1-allowed-refused / C12:l2-allowed-refused a well-formed message of a role holder is ERR
//   C12:err-changed-state                           an ERR changed an observable (partial batch)
//   C12:batch-not-all-or-nothing                    an Ok batch differs from its inner messages applied one by one
//   C12:batch-partial-write                         HANDLER level: ExecuteMessages returned an error on a kept branch but wrote something
//   C12:binding-repointed                           bridge id / addr / chain id / set client id changed
//   C12:signer-annotation                           GetMsgV1Signers does not return the probed field
//   C12:l2-oracle-guard                             MsgUpdateOracle from a non-executor is not refused as unauthorized

func init() { register("C12", genC12) }

type c12Follow struct {
	kind     string
	signer   string
	bridge   uint64
	expectOK bool
	mustFail bool // history-based: the signer lost the role by the stream's own accepted operations
	epoch    int  // mustFail is honoured only while no later operation could have changed the roles again
}

// ------------------------------------------------------------------------------------------
// L1
// ------------------------------------------------------------------------------------------

type c12L1 struct {
	sc       *L1Scenario
	c        *L1Case
	rep      *Report
	r        *Rng
	pastProp map[uint64][]string
	pastChal map[uint64][]string
	queue    []c12Follow
	sawOK    bool
	sawERR   bool
}

func l1RealMsg(o L1Op) sdk.Msg {
	switch o.Kind {
	case "create":
		return &ophosttypes.MsgCreateBridge{Creator: o.Sender, Config: o.Config.Real()}
	case "propose":
		return &ophosttypes.MsgProposeOutput{Proposer: o.Sender, BridgeId: o.Bridge, OutputIndex: o.Idx, L2BlockNumber: o.L2, OutputRoot: o.Root}
	case "delete":
		return &ophosttypes.MsgDeleteOutput{Challenger: o.Sender, BridgeId: o.Bridge, OutputIndex: o.Idx}
	case "uproposer":
		return &ophosttypes.MsgUpdateProposer{Authority: o.Sender, BridgeId: o.Bridge, NewProposer: o.NewAddr}
	case "uchallenger":
		return &ophosttypes.MsgUpdateChallenger{Authority: o.Sender, BridgeId: o.Bridge, Challenger: o.NewAddr}
	case "ubatch":
		return &ophosttypes.MsgUpdateBatchInfo{Authority: o.Sender, BridgeId: o.Bridge, NewBatchInfo: ophosttypes.BatchInfo{Submitter: o.Submitter, ChainType: ophosttypes.BatchInfo_ChainType(o.Chain)}}
	case "uoracle":
		return &ophosttypes.MsgUpdateOracleConfig{Authority: o.Sender, BridgeId: o.Bridge, OracleEnabled: o.Flag}
	case "umeta":
		return &ophosttypes.MsgUpdateMetadata{Authority: o.Sender, BridgeId: o.Bridge, Metadata: o.Meta}
	case "uparams":
		var cs sdk.Coins
		for _, c := range o.Fee {
			cs = append(cs, coinOf(c.Denom, c.Amt))
		}
		return &ophosttypes.MsgUpdateParams{Authority: o.Sender, Params: &ophosttypes.Params{RegistrationFee: cs}}
	}
	return nil
}

func (g *c12L1) roles(b uint64) (prop, chal string, ok bool) {
	cfg, err := g.sc.Env.K.GetBridgeConfig(g.sc.Env.Ctx, b)
	if err != nil {
		return "", "", false
	}
	return cfg.Proposer, cfg.Challenger, true
}

// the table, in Go, on roles read from the implementation
func (g *c12L1) allowed(o L1Op) bool {
	auth := g.sc.Env.K.GetAuthority()
	prop, chal, ok := g.roles(o.Bridge)
	switch o.Kind {
	case "propose":
		return ok && o.Sender == prop
	case "delete":
		return ok && (o.Sender == auth || o.Sender == prop || o.Sender == chal)
	case "uproposer", "ubatch", "uoracle", "umeta":
		return ok && (o.Sender == auth || o.Sender == prop)
	case "uchallenger":
		return ok && (o.Sender == auth || o.Sender == chal)
	case "uparams":
		return o.Sender == auth
	}
	return true
}

func notIn(s string, l ...string) bool {
	for _, x := range l {
		if x == s {
			return false
		}
	}
	return true
}

var c12L1Classes = []string{"proposer", "PROPOSER", "challenger", "CHALLENGER", "past-proposer", "past-challenger", "gov", "GOV",
	"other-bridge-proposer", "other-bridge-challenger", "stranger", "invalid"}

func (g *c12L1) cand(class int, b uint64) string {
	e := g.sc.Env
	prop, chal, ok := g.roles(b)
	if !ok {
		prop, chal = e.User(1).Str, e.User(2).Str
	}
	other := uint64(1)
	if b == 1 {
		other = 2
	}
	oprop, ochal, ook := g.roles(other)
	if !ook {
		oprop, ochal = e.User(3).Str, e.User(4).Str
	}
	stranger := e.User(uint64(6 + g.r.Intn(2))).Str
	switch class {
	case 0:
		return prop
	case 1:
		return upperBech32(prop)
	case 2:
		return chal
	case 3:
		return upperBech32(chal)
	case 4:
		for i := len(g.pastProp[b]) - 1; i >= 0; i-- {
			if notIn(g.pastProp[b][i], prop, chal) {
				return g.pastProp[b][i]
			}
		}
		return stranger
	case 5:
		for i := len(g.pastChal[b]) - 1; i >= 0; i-- {
			if notIn(g.pastChal[b][i], prop, chal) {
				return g.pastChal[b][i]
			}
		}
		return stranger
	case 6:
		return e.Auth
	case 7:
		return upperBech32(e.Auth)
	case 8:
		return oprop
	case 9:
		return ochal
	case 10:
		return stranger
	}
	return []string{"", "nope", e.User(1).Str + "q", "cosmosvaloper1xyz"}[g.r.Intn(4)]
}

// another role than the candidate for the non-signer address fields
func (g *c12L1) otherRole(b uint64, cand string) string {
	e := g.sc.Env
	prop, chal, ok := g.roles(b)
	opts := []string{}
	if ok {
		opts = append(opts, prop, chal)
	}
	for i := 0; i < 3; i++ {
		opts = append(opts, e.User(uint64(1+g.r.Intn(5))).Str)
	}
	start := g.r.Intn(len(opts))
	for i := 0; i < len(opts); i++ {
		s := opts[(start+i)%len(opts)]
		if s != cand && strings.ToLower(s) != strings.ToLower(cand) {
			return s
		}
	}
	return e.User(5).Str
}

func (g *c12L1) probe(kind string, b uint64, signer string) (L1Op, bool) {
	sc, e, r := g.sc, g.sc.Env, g.r
	_, _, exists := g.roles(b)
	wf := exists
	o := L1Op{Kind: kind, Sender: signer, Bridge: b}
	switch kind {
	case "propose":
		next, _ := e.K.GetNextOutputIndex(e.Ctx, b)
		last := uint64(0)
		if next > 1 {
			if op, err := e.K.GetOutputProposal(e.Ctx, b, next-1); err == nil {
				last = op.L2BlockNumber
			}
		}
		o.Idx, o.L2, o.Root = next, last+1+uint64(r.Intn(3)), r.Bytes(32)
	case "delete":
		next, _ := e.K.GetNextOutputIndex(e.Ctx, b)
		if next > 1 {
			o.Idx = 1 + uint64(r.Intn(int(next-1)))
			if r.Chance(60) {
				o.Idx = next - 1 // keep the log from emptying too fast
			}
		} else {
			o.Idx = 1
			wf = false
		}
	case "uproposer", "uchallenger":
		o.NewAddr = g.otherRole(b, signer)
	case "ubatch":
		o.Submitter, o.Chain = g.otherRole(b, signer), uint64(1+r.Intn(2))
	case "uoracle":
		o.Flag = r.Bool()
	case "umeta":
		o.Meta = []byte("md-" + g.otherRole(b, signer)[:12])
	case "uparams":
		wf = true
		if r.Bool() {
			o.Fee = []HookSend{{Denom: "uinit", Amt: big.NewInt(int64(1 + r.Intn(3)))}}
		}
	}
	sc.reg(signer, o.NewAddr, o.Submitter)
	return sc.op(o), wf
}

func (g *c12L1) do(o L1Op, wf bool, expectOK bool, class string) ExecResult {
	e, c, rep := g.sc.Env, g.c, g.rep
	allowed := g.allowed(o)
	prop0, chal0, _ := g.roles(o.Bridge)
	// the declared signer, as the ante handler reads it
	if m := l1RealMsg(o); m != nil {
		if want, err := e.AK.AddressCodec().StringToBytes(o.Sender); err == nil {
			signers, _, serr := e.Enc.Marshaler.GetMsgV1Signers(m)
			if serr != nil || len(signers) != 1 || !bytes.Equal(signers[0], want) {
				rep.Violate(Violation{Case: c.ID, Step: len(c.Ops), What: "GetMsgV1Signers of " + o.Kind + " is not the probed signer field", Sig: "C12:signer-annotation", Ops: l1OpsHuman(append(c.Ops, o))})
			}
		}
	}
	var prev Ov
	if len(c.Obs) > 0 {
		prev = c.Obs[len(c.Obs)-1]
	}
	res := c.DoObs(o)
	i := len(c.Ops) - 1
	verdict := "ERR"
	if res.OK {
		verdict = "OK"
		g.sawOK = true
	} else {
		g.sawERR = true
	}
	rep.Hist("l1:" + o.Kind + ":" + verdict)
	rep.Hist("l1-signer:" + class + ":" + verdict)
	hist := func() []string { return l1OpsHuman(c.Ops[:i+1]) }
	if res.OK && !allowed {
		rep.Violate(Violation{Case: c.ID, Step: i, What: fmt.Sprintf("%s by %s succeeded although the signer holds no allowed role (proposer %s, challenger %s)", o.Kind, o.Sender, prop0, chal0), Sig: "C12:l1-ok-not-allowed", Ops: hist()})
	}
	if !res.OK && allowed && (wf || expectOK) {
		rep.Violate(Violation{Case: c.ID, Step: i, What: fmt.Sprintf("well-formed %s by role holder %s was refused: %s", o.Kind, o.Sender, res.Err), Sig: "C12:l1-allowed-refused", Ops: hist()})
	}
	if !res.OK && prev != nil {
		a, b := prev.(OL), c.Obs[i].(OL)
		if (OL{a.V[1:]}).Coq() != (OL{b.V[1:]}).Coq() {
			rep.Violate(Violation{Case: c.ID, Step: i, What: "a refused " + o.Kind + " changed the state", Sig: "C12:err-changed-state", Ops: hist()})
		}
	}
	// rotations: remember past holders, probe old and new holder at once
	if res.OK && (o.Kind == "uproposer" || o.Kind == "uchallenger") {
		if o.Kind == "uproposer" && prop0 != o.NewAddr {
			g.pastProp[o.Bridge] = append(g.pastProp[o.Bridge], prop0)
			g.queue = append(g.queue, c12Follow{"propose", prop0, o.Bridge, false, false, 0}, c12Follow{"uoracle", o.NewAddr, o.Bridge, true, false, 0},
				c12Follow{[]string{"uproposer", "ubatch", "umeta", "uoracle", "delete"}[g.r.Intn(5)], prop0, o.Bridge, false, false, 0})
		}
		if o.Kind == "uchallenger" && chal0 != o.NewAddr {
			g.pastChal[o.Bridge] = append(g.pastChal[o.Bridge], chal0)
			g.queue = append(g.queue, c12Follow{"uchallenger", chal0, o.Bridge, false, false, 0}, c12Follow{"delete", o.NewAddr, o.Bridge, false, false, 0},
				c12Follow{"delete", chal0, o.Bridge, false, false, 0})
		}
	}
	return res
}

func c12L1Case(seed uint64, id int, nProbes int, rep *Report) *L1Case {
	sc := NewL1Scenario(seed, id, nil)
	g := &c12L1{sc: sc, c: sc.Case, rep: rep, r: sc.R, pastProp: map[uint64][]string{}, pastChal: map[uint64][]string{}}
	e, r := sc.Env, sc.R
	// set-up: two bridges with four distinct role holders, a long window (nothing finalizes
	// during the case), a few outputs each
	for b := uint64(1); b <= 2; b++ {
		cfg := sc.NewConfig(2*b-1, 2*b, 3600*sec)
		g.do(sc.Create(e.User(5).Str, cfg), true, false, "creator")
		for k := 0; k < 3; k++ {
			o, wf := g.probe("propose", b, e.User(2*b-1).Str)
			g.do(o, wf, true, "proposer")
		}
	}
	kinds := []string{"propose", "delete", "uproposer", "uchallenger", "ubatch", "uoracle", "umeta", "uparams"}
	for n := 0; n < nProbes; n++ {
		if len(g.queue) > 0 {
			f := g.queue[0]
			g.queue = g.queue[1:]
			o, wf := g.probe(f.kind, f.bridge, f.signer)
			g.do(o, wf, f.expectOK, "after-rotation")
			continue
		}
		kind := kinds[r.Weighted([]int{14, 10, 18, 18, 10, 10, 10, 10})]
		b := uint64(1 + r.Intn(2))
		if r.Chance(4) {
			b = []uint64{0, 3, 9}[r.Intn(3)]
		}
		class := r.Weighted([]int{16, 6, 14, 6, 8, 8, 12, 5, 6, 6, 9, 4})
		signer := g.cand(class, b)
		o, wf := g.probe(kind, b, signer)
		g.do(o, wf, false, c12L1Classes[class])
	}
	return g.c
}

// ------------------------------------------------------------------------------------------
// L2
// ------------------------------------------------------------------------------------------

type c12L2 struct {
	sc         *L2Scenario
	c          *L2Case
	rep        *Report
	r          *Rng
	pastExecs  []string
	pastAdmins []string
	evs        []string // the history as Model/C12Spec events (messages and block ends)
	nextPlanH  int64
	mustFail   bool
	epoch      int // bumped by every plan and every accepted params update / batch
	queue      []c12Follow
	baseAddr   string
	bound      *opchildtypes.BridgeInfo
	sawOK      bool
	sawERR     bool
}

const c12L2Header = `Require Import Model.Bytes Model.Obs Model.Bank Model.Valset Model.L2 Model.TraceL2 Model.TraceC12 Model.C12Spec.
From Coq Require Import List NArith ZArith String.
Import ListNotations.
Local Open Scope string_scope.
`

func c12L2Extra(e *L2Env) Ov {
	ps, err := e.K.GetParams(e.Ctx)
	if err != nil {
		panic(err)
	}
	var execs []Ov
	for _, x := range ps.BridgeExecutors {
		execs = append(execs, OB{[]byte(x)})
	}
	var info Ov = ol()
	if ok, _ := e.K.BridgeInfo.Has(e.Ctx); ok {
		bi, err := e.K.BridgeInfo.Get(e.Ctx)
		if err != nil {
			panic(err)
		}
		info = ol(ol(onU(bi.BridgeId), OB{[]byte(bi.BridgeAddr)}, OB{[]byte(bi.L1ChainId)}, OB{[]byte(bi.L1ClientId)}, obool(bi.BridgeConfig.OracleEnabled)))
	}
	vals, err := e.K.GetAllValidators(e.Ctx)
	if err != nil {
		panic(err)
	}
	pow := int64(0)
	for _, v := range vals {
		pow += v.ConsPower
	}
	return ol(OB{[]byte(ps.Admin)}, OL{execs}, info, onU(uint64(len(vals))), ozI(pow))
}

func (g *c12L2) roles() (admin string, execs []string, auth string) {
	e := g.sc.Env
	ps, err := e.K.GetParams(e.Ctx)
	if err != nil {
		panic(err)
	}
	return ps.Admin, ps.BridgeExecutors, e.K.GetAuthority()
}

func (g *c12L2) decode(s string) []byte {
	b, err := g.sc.Env.AK.AddressCodec().StringToBytes(s)
	if err != nil {
		return nil
	}
	return b
}

func (g *c12L2) isExec(s string, execs []string) bool {
	b := g.decode(s)
	if b == nil {
		return false
	}
	for _, x := range execs {
		if xb := g.decode(x); xb != nil && bytes.Equal(xb, b) {
			return true
		}
	}
	return false
}

// the table, in Go, on roles read from the implementation; for a batch the inner messages are
// judged on the same roles as long as no inner params update precedes them
func (g *c12L2) allowed(o L2Op, admin string, execs []string, auth string) bool {
	switch o.Kind {
	case "fdep", "setinfo":
		return g.isExec(o.Sender, execs)
	case "params", "addval", "rmval", "spend":
		return o.Sender == auth
	case "exec":
		if o.Sender != admin {
			return false
		}
		ab := g.decode(auth)
		rolesStable := true
		for _, im := range o.Inner {
			sb := g.decode(im.Sender)
			if sb == nil || ab == nil || !bytes.Equal(sb, ab) {
				return false
			}
			if rolesStable && !g.allowed(im, admin, execs, auth) {
				return false
			}
			if im.Kind == "params" || im.Kind == "exec" {
				rolesStable = false
			}
		}
		return true
	}
	return true
}

var c12L2Classes = []string{"executor", "EXECUTOR", "past-executor", "admin", "ADMIN", "past-admin", "authority", "AUTHORITY", "stranger", "invalid"}

func (g *c12L2) stranger() string {
	e := g.sc.Env
	admin, execs, _ := g.roles()
	start := g.r.Intn(len(e.Users))
	for i := 0; i < len(e.Users); i++ {
		u := e.Users[(start+i)%len(e.Users)].Str
		if u != admin && !g.isExec(u, execs) {
			return u
		}
	}
	return e.User(6).Str
}

func (g *c12L2) cand(class int) string {
	e := g.sc.Env
	admin, execs, auth := g.roles()
	ex := e.User(1).Str
	if len(execs) > 0 {
		ex = execs[g.r.Intn(len(execs))]
	}
	switch class {
	case 0:
		return ex
	case 1:
		return upperBech32(ex)
	case 2:
		for i := len(g.pastExecs) - 1; i >= 0; i-- {
			if !g.isExec(g.pastExecs[i], execs) && g.pastExecs[i] != admin {
				return g.pastExecs[i]
			}
		}
		return g.stranger()
	case 3:
		return admin
	case 4:
		return upperBech32(admin)
	case 5:
		for i := len(g.pastAdmins) - 1; i >= 0; i-- {
			if g.pastAdmins[i] != admin && !g.isExec(g.pastAdmins[i], execs) {
				return g.pastAdmins[i]
			}
		}
		return g.stranger()
	case 6:
		return auth
	case 7:
		return upperBech32(auth)
	case 8:
		return g.stranger()
	}
	return []string{"", "notanaddress", e.User(1).Str + "x", "cosmosvaloper1abc"}[g.r.Intn(4)]
}

func (g *c12L2) binfo(id uint64, addr, chain, client string, oracle bool, cfgOK bool) *BInfo {
	e := g.sc.Env
	cfg := ophosttypes.BridgeConfig{Challenger: e.User(5).Str, Proposer: e.User(6).Str,
		BatchInfo:          ophosttypes.BatchInfo{Submitter: e.User(6).Str, ChainType: ophosttypes.BatchInfo_CHAIN_TYPE_INITIA},
		SubmissionInterval: 10 * 1e9, FinalizationPeriod: 100 * 1e9, SubmissionStartHeight: 1, OracleEnabled: oracle, Metadata: []byte("m")}
	if !cfgOK {
		cfg.SubmissionInterval = 0
	}
	real := opchildtypes.BridgeInfo{BridgeId: id, BridgeAddr: addr, L1ChainId: chain, L1ClientId: client, BridgeConfig: cfg}
	return &BInfo{ID: id, Addr: addr, Chain: chain, Client: client, CfgOK: cfg.ValidateWithNoAddrValidation() == nil, Oracle: oracle, Real: real}
}

// a bridge info compatible with the stored one (or the base one), optionally re-pointed
func (g *c12L2) infoProbe(repoint int) (*BInfo, bool) {
	e := g.sc.Env
	id, addr, chain, client := g.sc.BridgeID, g.baseAddr, "l1chain", ""
	stored := false
	if ok, _ := e.K.BridgeInfo.Has(e.Ctx); ok {
		bi, _ := e.K.BridgeInfo.Get(e.Ctx)
		id, addr, chain, client = bi.BridgeId, bi.BridgeAddr, bi.L1ChainId, bi.L1ClientId
		stored = true
	}
	wf := true
	if client == "" && g.r.Chance(35) {
		client = "07-tendermint-0"
	}
	switch repoint {
	case 1:
		id++
		wf = !stored
	case 2:
		// ONLY the bridge address changes, to another value of the same kind as the stored one
		// (an L2-decodable address, an L1 bech32 string of another prefix, hex, upper-case, blank-looking)
		addr = g.sameKindAddr(addr)
		wf = !stored
	case 3:
		chain = chain + "-x"
		wf = !stored
	case 4:
		if stored {
			bi, _ := e.K.BridgeInfo.Get(e.Ctx)
			if bi.L1ClientId != "" {
				client = bi.L1ClientId + "9"
				wf = false
			}
		}
	case 5:
		return g.binfo(id, addr, chain, client, true, false), false
	case 6: // same binding, EMPTY client id although one is stored
		if stored && client != "" {
			client = ""
			wf = false
		}
	case 7: // a different non-empty client id (allowed only while none is stored)
		if stored {
			bi, _ := e.K.BridgeInfo.Get(e.Ctx)
			client = "07-tendermint-" + fmt.Sprint(7+g.r.Intn(3))
			if client == bi.L1ClientId {
				client += "1"
			}
			wf = bi.L1ClientId == ""
		}
	}
	return g.binfo(id, addr, chain, client, g.r.Chance(70), true), wf
}

// bridge addresses in the formats an L1 may use; the L2 only stores and compares the string
var c12AddrKinds = []string{"l2", "l1-bech32", "hex", "upper", "blank"}

func (g *c12L2) addrOfKind(kind string, n int) string {
	e := g.sc.Env
	switch kind {
	case "l1-bech32":
		return []string{"init1qg5ega6dykkxc307y25pecuufrjkxkaggkkxh7nad0vhyhtuhw3sqaa3c5", "init1zqyjzgfkx0r3l4yyj2fz7s5zxk5zyvvqez9sd9", "init1l1bridge000000000000000000000000000"}[n%3]
	case "hex":
		return []string{"0x1234abcd00000000000000000000000000000001", "0x1234abcd00000000000000000000000000000002", "0X1234ABCD00000000000000000000000000000001"}[n%3]
	case "upper":
		return upperBech32(e.User(uint64(1 + n%5)).Str)
	case "blank":
		return []string{" ", "  ", "\t"}[n%3]
	}
	return e.User(uint64(1 + n%5)).Str
}

func (g *c12L2) sameKindAddr(cur string) string {
	kind := "l2"
	for _, k := range c12AddrKinds {
		for n := 0; n < 5; n++ {
			if g.addrOfKind(k, n) == cur {
				kind = k
			}
		}
	}
	for n := g.r.Intn(5); ; n++ {
		if a := g.addrOfKind(kind, n); a != cur {
			return a
		}
	}
}

func (g *c12L2) keepParams() *L2Params {
	e := g.sc.Env
	ps, _ := e.K.GetParams(e.Ctx)
	return &L2Params{Admin: ps.Admin, Execs: append([]string{}, ps.BridgeExecutors...), MaxV: uint64(ps.MaxValidators), Hist: uint64(ps.HistoricalEntries),
		MinGas: g.c.Params.MinGas, Whitelist: []string{}, HookGas: ps.HookMaxGas}
}

func (g *c12L2) rotatedParams() *L2Params {
	e, r := g.sc.Env, g.r
	np := g.keepParams()
	if r.Chance(45) {
		np.Admin = e.User(uint64(1 + r.Intn(6))).Str
		if r.Chance(10) {
			np.Admin = e.Auth
		}
	}
	if r.Chance(60) {
		np.Execs = nil
		n := 1 + r.Intn(3)
		for j := 0; j < n; j++ {
			x := e.User(uint64(1 + r.Intn(6))).Str
			if r.Chance(20) { // stored in the non-canonical (upper-case) spelling: the same address bytes
				x = upperBech32(x)
			}
			np.Execs = append(np.Execs, x)
		}
		if r.Chance(25) {
			np.Execs = append(np.Execs, e.Auth)
		}
	}
	if r.Chance(6) {
		np.Execs = append(np.Execs, "notanaddress")
	}
	return np
}

func (g *c12L2) other(cand string) string {
	e := g.sc.Env
	admin, execs, _ := g.roles()
	opts := append([]string{admin}, execs...)
	opts = append(opts, e.User(uint64(1+g.r.Intn(6))).Str)
	start := g.r.Intn(len(opts))
	for i := 0; i < len(opts); i++ {
		s := opts[(start+i)%len(opts)]
		if g.decode(s) != nil && strings.ToLower(s) != strings.ToLower(cand) {
			return s
		}
	}
	return e.User(4).Str
}

// build one message of the given kind with the candidate in the signer field only
func (g *c12L2) probe(kind string, signer string, depth int) (L2Op, bool) {
	sc, e, r := g.sc, g.sc.Env, g.r
	wf := true
	var o L2Op
	switch kind {
	case "fdep":
		n1, _ := e.K.GetNextL1Sequence(e.Ctx)
		seq := n1
		if depth == 0 {
			switch r.Weighted([]int{50, 32, 18}) {
			case 1: // stale: already processed (a NOOP for an executor, refused for anybody else)
				if n1 > 1 {
					seq = 1 + uint64(r.Intn(int(n1-1)))
				}
			case 2: // ahead of the next expected sequence
				seq = n1 + 1 + uint64(r.Intn(3))
				wf = false
			}
		}
		o = sc.Deposit(signer, seq, g.other(signer), r.Intn(2), big.NewInt(int64(1+r.Intn(20))), Hook{Kind: "none"})
		o.From = g.other(signer) // an L2 role holder's string in the L1-sender field
	case "setinfo":
		rp := 0
		if r.Chance(35) {
			rp = 1 + r.Intn(7)
		}
		bi, w := g.infoProbe(rp)
		wf = w
		o = L2Op{Kind: "setinfo", Sender: signer, Info: bi}
	case "params":
		np := g.rotatedParams()
		for _, x := range np.Execs {
			if g.decode(x) == nil {
				wf = false
			}
		}
		sc.register(np.Admin)
		sc.register(np.Execs...)
		o = L2Op{Kind: "params", Sender: signer, Params: np}
	case "addval":
		o = L2Op{Kind: "addval", Sender: signer, OpID: uint64(1 + r.Intn(4)), KeyID: uint64(1 + r.Intn(4))}
		wf = false // capacity / duplicates decide
	case "rmval":
		o = L2Op{Kind: "rmval", Sender: signer, OpID: uint64(1 + r.Intn(4))}
		wf = false
	case "spend":
		o = L2Op{Kind: "spend", Sender: signer, To: g.other(signer), Coins: []HookSend{{Denom: sc.Native, Amt: big.NewInt(int64(1 + r.Intn(2)))}}}
		if id, ok := e.Resolve(o.To); !ok || id >= ModOpchild && id < 900 {
			wf = false
		}
	case "withdraw":
		o = L2Op{Kind: "withdraw", Sender: signer, To: "l1addr", Denom: sc.L2Denoms[r.Intn(2)], Amt: big.NewInt(1)}
		wf = false
	case "exec":
		_, _, auth := g.roles()
		n := 1 + r.Intn(3)
		for j := 0; j < n; j++ {
			is := auth
			switch r.Weighted([]int{78, 5, 5, 4, 4, 4}) {
			case 1:
				is = upperBech32(auth)
			case 2:
				is = g.cand(3)
			case 3:
				is = g.cand(0)
			case 4:
				is = g.stranger()
			case 5:
				is = g.cand(9)
			}
			ik := []string{"spend", "params", "addval", "rmval", "fdep", "setinfo", "exec"}[r.Weighted([]int{40, 12, 10, 8, 12, 12, 6})]
			if ik == "exec" && depth >= 1 {
				ik = "spend"
			}
			if ik == "params" && j > 0 {
				ik = "spend"
			}
			im, w := g.probe(ik, is, depth+1)
			if ik == "fdep" && j > 0 {
				// sequence numbers inside one batch would need the intermediate state
				im, w = g.probe("spend", is, depth+1)
			}
			if !w || is != auth {
				wf = false
			}
			o.Inner = append(o.Inner, im)
		}
		if r.Chance(22) { // a failing tail: everything before it must be rolled back
			o.Inner = append(o.Inner, L2Op{Kind: "spend", Sender: auth, To: e.User(4).Str, Coins: []HookSend{{Denom: sc.Native, Amt: big.NewInt(1000000000)}}})
			wf = false
		}
		// only one setinfo / one spend-recipient class matters for well-formedness; keep wf conservative
		cnt := 0
		for _, im := range o.Inner {
			if im.Kind == "setinfo" || im.Kind == "fdep" || im.Kind == "exec" || im.Kind == "params" {
				cnt++
			}
		}
		if cnt > 1 {
			wf = false
		}
		o.Kind, o.Sender = "exec", signer
	}
	sc.register(signer, o.To)
	return o, wf
}

func c12PlanCoq(o L2Op) string {
	if o.Seq == 0 {
		return "EEnd None"
	}
	ex := []string{}
	for _, x := range o.Params.Execs {
		ex = append(ex, coqStr(x))
	}
	return fmt.Sprintf("EEnd (Some {| pl_op := %s; pl_key := %s; pl_execs := %s |})", coqU(o.OpID), coqU(o.KeyID), coqList(ex))
}

func c12EvCoq(o L2Op) string {
	if o.Kind == "endplan" {
		return c12PlanCoq(o)
	}
	return "EMsg (" + o.Coq() + ")"
}

func l2OpsHuman(ops []L2Op) []string {
	internOff = true
	defer func() { internOff = false }()
	out := make([]string, len(ops))
	for i, o := range ops {
		out[i] = c12EvCoq(o)
	}
	return out
}

// the case as (l2case with no ops, event list)
func (g *c12L2) coq() string {
	ops := g.c.Ops
	g.c.Ops = nil
	t := g.c.Coq()
	g.c.Ops = ops
	t = strings.Replace(t, ",\n {| c_table", ",\n ({| c_table", 1)
	t = strings.Replace(t, " |},\n [", " |}, [\n      "+strings.Join(g.evs, ";\n      ")+"]),\n [", 1)
	return t
}

// an executor-change plan registered for a fresh height and the end blocker of that height
func (g *c12L2) endPlan(execs []string) {
	e, c, rep := g.sc.Env, g.c, g.rep
	if g.nextPlanH == 0 {
		g.nextPlanH = 1000
	}
	H := g.nextPlanH
	g.nextPlanH++
	g.epoch++
	js, err := e.Enc.Marshaler.MarshalInterfaceJSON(e.ValKeys[4])
	if err != nil {
		panic(err)
	}
	_, before, _ := g.roles()
	rerr := func() (err error) {
		defer func() {
			if x := recover(); x != nil {
				err = fmt.Errorf("panic: %v", x)
			}
		}()
		return e.K.RegisterExecutorChangePlan(uint64(H), uint64(H), e.ValOps[4].String(), "m", string(js), "info", execs)
	}()
	o := L2Op{Kind: "endplan", OpID: 5, KeyID: 5, Params: &L2Params{Execs: execs}, Height: uint64(H)}
	if rerr == nil {
		o.Seq = 1
	}
	g.sc.register(execs...)
	res := execAtomic(e.Ctx.WithBlockHeight(H), func(ctx sdk.Context) (interface{}, error) {
		_, err := opchild.EndBlocker(ctx, e.K)
		return nil, err
	})
	c.Ops = append(c.Ops, o)
	c.Results = append(c.Results, res)
	g.evs = append(g.evs, c12PlanCoq(o))
	verdict := "END-ERR"
	if res.OK {
		verdict = "END-OK"
	}
	c.Obs = append(c.Obs, ol(OS{verdict}, c12L2Extra(e)))
	i := len(c.Ops) - 1
	rep.Hist(fmt.Sprintf("l2:endplan:registered=%v:n=%d:%s", rerr == nil, len(execs), verdict))
	g.checkBinding(i)
	if rerr != nil || !res.OK {
		return
	}
	// model-free: after the plan height the executor list is exactly the plan's list
	_, after, _ := g.roles()
	if strings.Join(after, ",") != strings.Join(execs, ",") {
		rep.Violate(Violation{Case: c.ID, Step: i, What: fmt.Sprintf("after the executor-change plan with executors %v the executor list is %v", execs, after), Sig: "C12:plan-executors-not-installed", Ops: l2OpsHuman(c.Ops[:i+1])})
	}
	// the old and the new holders at once; "old" by the plan (history), not by what the params now say
	for _, x := range before {
		if !g.isExec(x, execs) && g.decode(x) != nil {
			g.pastExecs = append(g.pastExecs, x)
			g.queue = append(g.queue, c12Follow{kind: "fdep", signer: x, mustFail: true, epoch: g.epoch}, c12Follow{kind: "setinfo", signer: x, mustFail: true, epoch: g.epoch})
		}
	}
	for _, x := range execs {
		g.queue = append(g.queue, c12Follow{kind: "setinfo", signer: x, expectOK: true})
	}
}

func (g *c12L2) checkBinding(i int) {
	e := g.sc.Env
	ok, _ := e.K.BridgeInfo.Has(e.Ctx)
	if !ok {
		if g.bound != nil {
			g.rep.Violate(Violation{Case: g.c.ID, Step: i, What: "bridge info disappeared", Sig: "C12:binding-repointed", Ops: l2OpsHuman(g.c.Ops[:i+1])})
		}
		return
	}
	bi, _ := e.K.BridgeInfo.Get(e.Ctx)
	// history-based: [bound] is the FIRST stored binding, its client id the first non-empty
	// client id ever stored; later states are compared with that, not with the previous state
	if g.bound == nil {
		first := bi
		g.bound = &first
		return
	}
	b := g.bound
	if bi.BridgeId != b.BridgeId || bi.BridgeAddr != b.BridgeAddr || bi.L1ChainId != b.L1ChainId || (b.L1ClientId != "" && bi.L1ClientId != b.L1ClientId) {
		g.rep.Violate(Violation{Case: g.c.ID, Step: i, What: fmt.Sprintf("bridge binding re-pointed: first stored (%d,%s,%s,%q), now (%d,%s,%s,%q)", b.BridgeId, b.BridgeAddr, b.L1ChainId, b.L1ClientId,
			bi.BridgeId, bi.BridgeAddr, bi.L1ChainId, bi.L1ClientId), Sig: "C12:binding-repointed", Ops: l2OpsHuman(g.c.Ops[:i+1])})
		return
	}
	if b.L1ClientId == "" && bi.L1ClientId != "" {
		b.L1ClientId = bi.L1ClientId
	}
}

func (g *c12L2) do(o L2Op, wf, expectOK bool, class string) ExecResult {
	e, c, rep := g.sc.Env, g.c, g.rep
	admin, execs, auth := g.roles()
	allowed := g.allowed(o, admin, execs, auth)
	if m := e.RealMsg(o); m != nil {
		if want := g.decode(o.Sender); want != nil {
			signers, _, serr := e.Enc.Marshaler.GetMsgV1Signers(m)
			if serr != nil || len(signers) != 1 || !bytes.Equal(signers[0], want) {
				rep.Violate(Violation{Case: c.ID, Step: len(c.Ops), What: "GetMsgV1Signers of " + o.Kind + " is not the probed signer field", Sig: "C12:signer-annotation", Ops: l2OpsHuman(append(c.Ops, o))})
			}
		}
	}
	var prev Ov
	if len(c.Obs) > 0 {
		prev = c.Obs[len(c.Obs)-1]
	}
	// all-or-nothing, model-free: replay the inner messages one by one on a discarded branch
	// of the pre-state; a successful batch must equal that replay, every step succeeding
	l2Digest := func() string {
		b := e.L2Obs(c.Track, ExecResult{}).(OL)
		return (OL{b.V[1:7]}).Coq() + c12L2Extra(e).Coq()
	}
	innerAllOK, innerDigest := true, ""
	if o.Kind == "exec" {
		saved := e.Ctx
		branch, _ := saved.CacheContext()
		e.Ctx = branch
		for _, im := range o.Inner {
			if r := e.L2Exec(im); !r.OK {
				innerAllOK = false
				break
			}
		}
		innerDigest = l2Digest()
		e.Ctx = saved
	}
	// handler level, MsgExecuteMessages only: call the msg server on a branch that is KEPT when it
	// returns an error (no execAtomic rollback): a refused batch must not have written anything
	if o.Kind == "exec" {
		saved := e.Ctx
		branch, _ := saved.CacheContext()
		branch = branch.WithEventManager(sdk.NewEventManager())
		e.Ctx = branch
		before := l2Digest()
		var herr error
		func() {
			defer func() {
				if r := recover(); r != nil {
					herr = nil // a panic is not a returned error; baseapp handles it
				}
			}()
			_, herr = e.Msg.ExecuteMessages(branch, e.RealMsg(o).(*opchildtypes.MsgExecuteMessages))
		}()
		if herr != nil {
			rep.Hist("l2:exec-handler-level:ERR")
			if after := l2Digest(); after != before {
				rep.Violate(Violation{Case: c.ID, Step: len(c.Ops), What: "MsgExecuteMessages returned an error (" + herr.Error() + ") but effects of earlier inner messages are written to the caller's context", Sig: "C12:batch-partial-write", Ops: l2OpsHuman(append(c.Ops, o))})
			}
		}
		e.Ctx = saved
	}
	res := e.L2Exec(o)
	if o.Kind == "exec" && res.OK && (!innerAllOK || innerDigest != l2Digest()) {
		rep.Violate(Violation{Case: c.ID, Step: len(c.Ops), What: fmt.Sprintf("ExecuteMessages succeeded but is not the inner messages applied one by one (every inner message succeeds alone in order: %v)", innerAllOK), Sig: "C12:batch-not-all-or-nothing", Ops: l2OpsHuman(append(c.Ops, o))})
	}
	c.Ops = append(c.Ops, o)
	g.evs = append(g.evs, c12EvCoq(o))
	c.Results = append(c.Results, res)
	c.Obs = append(c.Obs, ol(e.L2Obs(c.Track, res), c12L2Extra(e)))
	i := len(c.Ops) - 1
	verdict := "ERR"
	if res.OK {
		verdict = "OK"
		g.sawOK = true
	} else {
		g.sawERR = true
	}
	rep.Hist("l2:" + o.Kind + ":" + verdict)
	rep.Hist("l2-signer:" + class + ":" + verdict)
	hist := func() []string { return l2OpsHuman(c.Ops[:i+1]) }
	if res.OK && g.mustFail {
		rep.Violate(Violation{Case: c.ID, Step: i, What: fmt.Sprintf("%s by %s succeeded although an executor-change plan removed it from the executor list", o.Kind, o.Sender), Sig: "C12:l2-ok-not-allowed", Ops: hist()})
	}
	g.mustFail = false
	if res.OK && !allowed {
		rep.Violate(Violation{Case: c.ID, Step: i, What: fmt.Sprintf("%s by %s succeeded although the signer is not allowed (admin %s, executors %v, authority %s)", o.Kind, o.Sender, admin, execs, auth), Sig: "C12:l2-ok-not-allowed", Ops: hist()})
	}
	if !res.OK && allowed && (wf || expectOK) {
		rep.Violate(Violation{Case: c.ID, Step: i, What: fmt.Sprintf("well-formed %s by role holder %s was refused: %s", o.Kind, o.Sender, res.Err), Sig: "C12:l2-allowed-refused", Ops: hist()})
	}
	if !res.OK && prev != nil {
		stateOf := func(v Ov) string {
			l := v.(OL)
			base, isMsg := l.V[0].(OL)
			if !isMsg {
				return ""
			}
			return (OL{base.V[1:7]}).Coq() + l.V[1].Coq()
		}
		if stateOf(prev) != "" && stateOf(prev) != stateOf(c.Obs[i]) {
			rep.Violate(Violation{Case: c.ID, Step: i, What: "a refused " + o.Kind + " changed the state (partial execution)", Sig: "C12:err-changed-state", Ops: hist()})
		}
	}
	g.checkBinding(i)
	// rotations
	if res.OK && (o.Kind == "params" || o.Kind == "exec") {
		g.epoch++
	}
	if res.OK {
		admin2, execs2, _ := g.roles()
		if admin2 != admin {
			g.pastAdmins = append(g.pastAdmins, admin)
			g.queue = append(g.queue, c12Follow{"exec", admin, 0, false, false, 0}, c12Follow{"exec", admin2, 0, true, false, 0})
		}
		for _, x := range execs {
			if !g.isExec(x, execs2) {
				g.pastExecs = append(g.pastExecs, x)
				g.queue = append(g.queue, c12Follow{[]string{"fdep", "setinfo"}[g.r.Intn(2)], x, 0, false, false, 0})
			}
		}
		for _, x := range execs2 {
			if !g.isExec(x, execs) && g.decode(x) != nil {
				// the new executor in the stored spelling and in the other spelling of the same bytes
				other := upperBech32(x)
				if other == x {
					other = strings.ToLower(x)
				}
				g.queue = append(g.queue, c12Follow{"setinfo", x, 0, true, false, 0}, c12Follow{"setinfo", other, 0, true, false, 0})
			}
		}
	}
	return res
}

// MsgUpdateOracle is not part of the model (it needs a signed L1 commit to succeed); probe the
// guard on a discarded branch: a non-executor must be refused as unauthorized, an executor
// must get past the permission check.
func (g *c12L2) oracleProbe() {
	e := g.sc.Env
	ok, _ := e.K.BridgeInfo.Has(e.Ctx)
	if !ok {
		return
	}
	bi, _ := e.K.BridgeInfo.Get(e.Ctx)
	if !bi.BridgeConfig.OracleEnabled {
		return
	}
	_, execs, _ := g.roles()
	for _, class := range []int{0, 1, 2, 3, 6, 8} {
		signer := g.cand(class)
		if g.decode(signer) == nil {
			continue
		}
		branch, _ := e.Ctx.CacheContext()
		var err error
		func() {
			defer func() {
				if r := recover(); r != nil {
					err = fmt.Errorf("panic: %v", r)
				}
			}()
			_, err = e.Msg.UpdateOracle(branch, &opchildtypes.MsgUpdateOracle{Sender: signer, Height: 5, Data: []byte{1, 2, 3}})
		}()
		isExec := g.isExec(signer, execs)
		unauth := err != nil && errors.Is(err, sdkerrors.ErrUnauthorized)
		g.rep.Hist(fmt.Sprintf("l2:uoracle-guard:exec=%v:unauthorized=%v", isExec, unauth))
		if err == nil && !isExec {
			g.rep.Violate(Violation{Case: g.c.ID, Step: len(g.c.Ops), What: "MsgUpdateOracle by non-executor " + signer + " succeeded", Sig: "C12:l2-oracle-guard", Ops: l2OpsHuman(g.c.Ops)})
		} else if !isExec && !unauth {
			g.rep.Violate(Violation{Case: g.c.ID, Step: len(g.c.Ops), What: "MsgUpdateOracle by non-executor " + signer + " was not refused as unauthorized: " + err.Error(), Sig: "C12:l2-oracle-guard", Ops: l2OpsHuman(g.c.Ops)})
		} else if isExec && unauth {
			g.rep.Violate(Violation{Case: g.c.ID, Step: len(g.c.Ops), What: "MsgUpdateOracle by listed executor " + signer + " was refused as unauthorized", Sig: "C12:l2-oracle-guard", Ops: l2OpsHuman(g.c.Ops)})
		}
	}
}

func c12L2Case(seed uint64, id int, nProbes int, rep *Report) *c12L2 {
	sc := NewL2Scenario(seed, id, false)
	g := &c12L2{sc: sc, c: sc.Case, rep: rep, r: sc.R}
	g.baseAddr = g.addrOfKind(c12AddrKinds[(id+int(seed))%len(c12AddrKinds)], 0)
	e, r := sc.Env, sc.R
	sc.register(e.Auth, upperBech32(e.Auth))
	kinds := []string{"fdep", "setinfo", "params", "addval", "rmval", "spend", "exec", "withdraw"}
	for n := 0; n < nProbes; n++ {
		if n%12 == 11 {
			g.oracleProbe()
		}
		if n%20 == 13 {
			// an executor-change plan and the end blocker of its height: empty, one-element and
			// longer lists (the model replays it as an EEnd event)
			var pl []string
			switch r.Weighted([]int{30, 40, 25, 5}) {
			case 1:
				pl = []string{e.User(uint64(1 + r.Intn(6))).Str}
			case 2:
				pl = []string{e.User(uint64(1 + r.Intn(6))).Str, e.User(uint64(1 + r.Intn(6))).Str}
			case 3:
				pl = []string{e.User(1).Str, "notanaddress"}
			}
			g.endPlan(pl)
			continue
		}
		if n%7 == 3 {
			// deposit finalization by somebody who is NOT a listed executor, all three sequence
			// classes (stale sequences only exist once a deposit has been finalized)
			who := g.cand([]int{2, 8, 3, 5}[r.Intn(4)])
			_, execs, _ := g.roles()
			if !g.isExec(who, execs) {
				o, _ := g.probe("fdep", who, 0)
				n1, _ := e.K.GetNextL1Sequence(e.Ctx)
				if n1 > 1 && r.Chance(60) {
					o.Seq = 1 + uint64(r.Intn(int(n1-1)))
				}
				g.do(o, false, false, "non-executor-deposit")
				continue
			}
		}
		if n%15 == 7 {
			// a listed executor tries to change exactly ONE binding field of the stored info: the
			// bridge address (to another value of the same kind: foreign bech32, hex, ...), the
			// bridge id, the L1 chain id - all must be refused, the stored binding unchanged
			if ok, _ := e.K.BridgeInfo.Has(e.Ctx); ok {
				_, execs, _ := g.roles()
				if len(execs) > 0 && g.decode(execs[0]) != nil {
					for _, rp := range []int{2, 1, 3} {
						bi, _ := g.infoProbe(rp)
						g.do(L2Op{Kind: "setinfo", Sender: execs[0], Info: bi}, false, false, "repoint-one-field")
					}
					continue
				}
			}
		}
		if n%15 == 14 {
			// the client id: blank it, then point it elsewhere (two messages of a listed executor)
			if ok, _ := e.K.BridgeInfo.Has(e.Ctx); ok {
				if bi, _ := e.K.BridgeInfo.Get(e.Ctx); bi.L1ClientId != "" {
					_, execs, _ := g.roles()
					if len(execs) > 0 && g.decode(execs[0]) != nil {
						a, _ := g.infoProbe(6)
						g.do(L2Op{Kind: "setinfo", Sender: execs[0], Info: a}, false, false, "client-id-blank")
						b, wfb := g.infoProbe(7)
						g.do(L2Op{Kind: "setinfo", Sender: execs[0], Info: b}, wfb, false, "client-id-other")
						continue
					}
				}
			}
		}
		if n%10 == 5 {
			// a batch of the current admin whose FIRST message succeeds and whose SECOND is rejected
			// (handler error / signer that is not the authority): nothing may remain
			admin, _, auth := g.roles()
			okMsg := L2Op{Kind: "spend", Sender: auth, To: e.User(4).Str, Coins: []HookSend{{Denom: sc.Native, Amt: big.NewInt(1)}}}
			bad := L2Op{Kind: "spend", Sender: auth, To: e.User(4).Str, Coins: []HookSend{{Denom: sc.Native, Amt: big.NewInt(1000000000)}}}
			if r.Bool() {
				bad = L2Op{Kind: "spend", Sender: g.stranger(), To: e.User(4).Str, Coins: []HookSend{{Denom: sc.Native, Amt: big.NewInt(1)}}}
			}
			sc.register(admin, bad.Sender, okMsg.To)
			g.do(L2Op{Kind: "exec", Sender: admin, Inner: []L2Op{okMsg, bad}}, false, false, "batch-ok-then-rejected")
			continue
		}
		if n%9 == 8 {
			// the CURRENT admin carries one message whose signer is not the authority but would
			// pass the inner handler's own check (a listed executor's deposit / bridge info, a
			// user's withdrawal): must be refused - the admin cannot act for other accounts
			admin, execs, auth := g.roles()
			var im L2Op
			is := ""
			for _, x := range execs {
				if g.decode(x) != nil && !bytes.Equal(g.decode(x), g.decode(auth)) {
					is = x
				}
			}
			switch {
			case is != "" && r.Chance(40):
				im, _ = g.probe("fdep", is, 1)
			case is != "" && r.Chance(60):
				bi, _ := g.infoProbe(0)
				im = L2Op{Kind: "setinfo", Sender: is, Info: bi}
			default:
				im, _ = g.probe("withdraw", e.User(uint64(1+r.Intn(6))).Str, 1)
				if im.Sender == auth {
					im.Sender = e.User(5).Str
				}
			}
			sc.register(admin, im.Sender)
			g.do(L2Op{Kind: "exec", Sender: admin, Inner: []L2Op{im}}, false, false, "admin-carrying-foreign-signer")
			continue
		}
		if len(g.queue) > 0 {
			f := g.queue[0]
			g.queue = g.queue[1:]
			var o L2Op
			wf := false
			switch f.kind {
			case "exec":
				_, _, auth := g.roles()
				o = L2Op{Kind: "exec", Sender: f.signer, Inner: []L2Op{{Kind: "spend", Sender: auth, To: e.User(4).Str, Coins: []HookSend{{Denom: sc.Native, Amt: big.NewInt(1)}}}}}
				sc.register(f.signer)
			case "setinfo":
				bi, w := g.infoProbe(0)
				o = L2Op{Kind: "setinfo", Sender: f.signer, Info: bi}
				wf = w
				sc.register(f.signer)
			default:
				o, _ = g.probe(f.kind, f.signer, 0)
			}
			g.mustFail = f.mustFail && f.epoch == g.epoch
			g.do(o, wf && f.expectOK, f.expectOK, "after-rotation")
			continue
		}
		kind := kinds[r.Weighted([]int{14, 18, 14, 8, 6, 12, 24, 4})]
		class := r.Weighted([]int{16, 8, 10, 14, 5, 8, 16, 6, 12, 5})
		signer := g.cand(class)
		o, wf := g.probe(kind, signer, 0)
		g.do(o, wf, false, c12L2Classes[class])
	}
	return g
}

func genC12(seed uint64, tier string, outdir string) *Report {
	rep := NewReport("C12", seed, tier)
	rep.Rule = "a case is one history of signer probes on a fresh instance (L1 or L2); distinct by hash of the op list; non-trivial = at least one permissioned message succeeded and at least one was refused"
	nCases, nProbes := 40, 60
	if tier == "thorough" {
		nCases, nProbes = 400, 90
	}
	var l1texts, l2texts []string
	for k := 0; k < nCases; k++ {
		c := c12L1Case(seed*7919+uint64(k), k+1, nProbes, rep)
		rep.Ops += len(c.Ops)
		ok, er := false, false
		for _, r := range c.Results {
			if r.OK {
				ok = true
			} else {
				er = true
			}
		}
		rep.CountCase("L1\n"+strings.Join(l1OpsHuman(c.Ops), "\n"), ok && er)
		if k == 0 {
			rep.Sample(map[string]interface{}{"kind": "L1 signer probes (ops 8..16)", "ops": l1OpsHuman(c.Ops[8:16])})
		}
		l1texts = append(l1texts, c.Coq())
	}
	for k := 0; k < nCases; k++ {
		g2 := c12L2Case(seed*104729+uint64(k), 1000+k+1, nProbes, rep)
		c := g2.c
		rep.Ops += len(c.Ops)
		ok, er := false, false
		for _, r := range c.Results {
			if r.OK {
				ok = true
			} else {
				er = true
			}
		}
		rep.CountCase("L2\n"+strings.Join(l2OpsHuman(c.Ops), "\n"), ok && er)
		if k == 0 {
			rep.Sample(map[string]interface{}{"kind": "L2 signer probes (first 8 ops)", "ops": l2OpsHuman(c.Ops[:8])})
		}
		l2texts = append(l2texts, g2.coq())
	}
	writeShards(outdir, "C12L1", l1CaseHeader, "run_l1case", "l1case", l1texts, 8, rep)
	writeShards(outdir, "C12L2", c12L2Header, "run_c12evcase", "(l2case * list l2ev)", l2texts, 8, rep)
	rep.Notes = append(rep.Notes, "opchild MsgUpdateOracle is outside the model (success needs a signed L1 commit); its executor guard is probed on discarded branches by error class only")
	return rep
}
