package main

import (
	"encoding/hex"
	"fmt"
	"math/big"
)

// C02: a withdrawal is paid at most once; Claimed is exact.
// Streams: (a) scripted histories dense in resubmission - the same claim against a re-proposed
// output, against a later output whose tree also contains the leaf, by a different submitter,
// with the proof of a duplicated leaf position, across deletions and re-proposals; (b) random L1
// histories weighted towards claims and replays; (c) exhaustive schedules over
// {propose, delete, advance, claim_0, claim_1, claim_2} on a 3-leaf tree and its 4-leaf superset.
// The double-pay monitor is model-free: it counts accepted finalizations per claim tuple and per
// (bridge, independently computed leaf), recomputes every payout from the request, and compares
// the Claimed answer of every claim ever submitted with "was paid" after every operation.

func init() { register("C02", genC02) }

func c02Monitor(rep *Report, c *L1Case) {
	tr := c.Track
	if len(c.Ops) == 0 || viewL1(c.Obs[0]).OK() {
		l1Violate(rep, c, 0, "C02:baseline", "the baseline operation (empty sender) was accepted")
		return
	}
	paidTuple := map[string]int{}
	paidW := map[string]int{} // per withdrawal: the recipient is keyed by ACCOUNT, not by spelling
	paidLeaf := map[string]bool{}
	prev := viewL1(c.Obs[0])
	for i := 1; i < len(c.Ops); i++ {
		o := c.Ops[i]
		v := viewL1(c.Obs[i])
		ok := v.OK()
		if o.Kind == "finalize" {
			if ok && o.Amt.Sign() <= 0 {
				l1Violate(rep, c, i, "C02:zero-amount-finalized", fmt.Sprintf("a finalization of amount %s%s (bridge %d, sequence %d) was accepted: nothing is paid and nothing is recorded", o.Amt, o.Denom, o.Bridge, o.Seq))
			}
			if ok {
				k := claimKey(o)
				paidTuple[k]++
				if paidTuple[k] > 1 {
					l1Violate(rep, c, i, "C02:paid-twice", fmt.Sprintf("claim tuple (bridge %d, sequence %d, %s -> %s, %s%s) was paid %d times", o.Bridge, o.Seq, o.From, o.To, o.Amt, o.Denom, paidTuple[k]))
				}
				wk := fmt.Sprintf("%d|%d|%s|%d|%s|%s", o.Bridge, o.Seq, o.From, c.idOf(o.To), o.Denom, o.Amt.String())
				paidW[wk]++
				if paidW[wk] > 1 && paidTuple[k] == 1 {
					l1Violate(rep, c, i, "C02:paid-twice", fmt.Sprintf("withdrawal (bridge %d, sequence %d, %s -> account %d, %s%s) was paid %d times under different spellings of the recipient (this time %q)", o.Bridge, o.Seq, o.From, c.idOf(o.To), o.Amt, o.Denom, paidW[wk], o.To))
				}
				lk := fmt.Sprintf("%d:%s", o.Bridge, hex.EncodeToString(leafOfOp(o)))
				if paidLeaf[lk] && paidTuple[k] == 1 {
					l1Violate(rep, c, i, "C02:paid-twice", "two accepted finalizations have the same (bridge, leaf) key")
				}
				paidLeaf[lk] = true
				rcv := c.idOf(o.To)
				for ai, a := range tr.Accts {
					for di, d := range tr.Denoms {
						delta := new(big.Int).Sub(v.Bal(tr, ai, di), prev.Bal(tr, ai, di))
						want := big.NewInt(0)
						if d == o.Denom && a == rcv {
							want.Add(want, o.Amt)
						}
						if d == o.Denom && a == EscrowBase+o.Bridge {
							want.Sub(want, o.Amt)
						}
						if delta.Cmp(want) != 0 {
							l1Violate(rep, c, i, "C02:payout-amount", fmt.Sprintf("accepted claim of %s%s on bridge %d changed the balance of account %d in %s by %s, expected %s", o.Amt, o.Denom, o.Bridge, a, d, delta, want))
						}
					}
				}
			} else if v.StableState() != prev.StableState() {
				l1Violate(rep, c, i, "C02:rejected-claim-changed-state", "a rejected finalization changed observable state")
			}
		}
		for j, cl := range tr.Claims {
			want := paidLeaf[cl[0]+":"+cl[1]]
			if v.Claimed(j) != want {
				l1Violate(rep, c, i, "C02:claimed-flag", fmt.Sprintf("Claimed(bridge %s, %s) = %v after step %d but paid = %v", cl[0], cl[1], v.Claimed(j), i, want))
				paidLeaf[cl[0]+":"+cl[1]] = v.Claimed(j) // report each discrepancy once
			}
		}
		prev = v
	}
}

// fund the escrow of b with every denom so that valid claims are payable
func (sc *L1Scenario) fundEscrow(b uint64, amt int64) {
	for i, d := range sc.Denoms {
		sc.DepositOp(sc.Env.User(uint64(1+i)).Str, b, "l2recipient", d, amt, nil)
	}
}

func supersetTree(sc *L1Scenario, base *ProposedTree, extra int) *ProposedTree {
	more := sc.MakeTree(base.Bridge, extra)
	ws := append(append([]Withdrawal{}, base.Tree.Ws...), more.Tree.Ws...)
	t := BuildTree(ws)
	pt := &ProposedTree{Bridge: base.Bridge, Tree: t, Version: byte(sc.R.Intn(3)), BHash: sc.R.Bytes(32)}
	pt.Root = outputRootOf(pt.Version, t.Root(), pt.BHash)
	return pt
}

// scripted: one bridge, resubmission-dense schedule
func c02Script(sc *L1Scenario, tier int) {
	e, r := sc.Env, sc.R
	period := []int64{sec, 7 * sec, 2*sec + 500000000}[r.Intn(3)]
	b, ok := sc.CreateStd(1, 2, period)
	if !ok {
		return
	}
	sc.fundEscrow(b, 3000)
	sc.fundBig(b)
	base := sc.MakeTree(b, []int{1, 2, 3, 3, 5, 7}[r.Intn(6)])
	nOrdinary := len(base.Tree.Ws)
	if r.Chance(75) { // plus leaves paying module accounts / another escrow, zero-amount leaves, twin-denom leaf
		ws := append(append([]Withdrawal{}, base.Tree.Ws...), sc.specialLeaves(b, sc.NextWSeq[b])...)
		sc.NextWSeq[b] += uint64(len(ws) - nOrdinary)
		base = sc.customTree(b, ws)
	}
	var live []*ProposedTree // outputs currently stored, by index order
	var all []*ProposedTree  // every tree ever proposed (stale ones included)
	propose := func(t *ProposedTree) {
		if cp, ok := sc.ProposeTree(b, t); ok {
			live = append(live, cp)
			all = append(all, cp)
		}
	}
	propose(base)
	n := 34
	if tier == 1 {
		n = 60
	}
	for i := 0; i < n; i++ {
		switch r.Weighted([]int{18, 40, 8, 10, 8, 10, 6, 14, 8, 12, 16, 10}) {
		case 0:
			sc.Advance([]int64{period, period + sec, sec, 1}[r.Intn(4)])
		case 1: // claim a leaf against an output that was proposed with a tree containing it
			if len(all) == 0 {
				continue
			}
			pt := all[r.Intn(len(all))]
			li := r.Intn(len(pt.Tree.Ws))
			if r.Chance(35) { // the position whose sibling is itself (odd level width)
				li = len(pt.Tree.Ws) - 1
			}
			sc.ClaimAt(pt, li, b, pt.Idx, e.User(uint64(1+r.Intn(7))).Str)
		case 2: // claim against another index (stale / re-proposed / future)
			if len(all) == 0 {
				continue
			}
			pt := all[r.Intn(len(all))]
			next, _ := e.K.GetNextOutputIndex(e.Ctx, b)
			sc.ClaimAt(pt, r.Intn(len(pt.Tree.Ws)), b, uint64(1+r.Intn(int(next)+1)), e.User(uint64(1+r.Intn(7))).Str)
		case 3: // delete the last (or an earlier) output
			next, _ := e.K.GetNextOutputIndex(e.Ctx, b)
			idx := next - 1
			if r.Chance(30) && next > 2 {
				idx = uint64(1 + r.Intn(int(next-1)))
			}
			signer := e.User(2).Str
			sc.reg(signer)
			if res := sc.do(L1Op{Kind: "delete", Sender: signer, Bridge: b, Idx: idx}); res.OK {
				live = live[:idx-1]
			}
		case 4: // re-propose the very same tree (same root) at the next index
			propose(base)
		case 5: // a later output whose tree also contains the old leaves
			propose(supersetTree(sc, base, 1+r.Intn(3)))
		case 6: // the same tree under a different output root preimage
			cp := &ProposedTree{Bridge: b, Tree: base.Tree, Version: byte(r.Intn(3)), BHash: r.Bytes(32)}
			cp.Root = outputRootOf(cp.Version, cp.Tree.Root(), cp.BHash)
			propose(cp)
		case 7: // a paid claim with the recipient in upper case / a claim with amount + k*2^64
			sc.variantStep()
		case 8: // a claim of the base tree with amount + k*2^64 (same low 64 bits) against a live output
			if len(all) == 0 {
				continue
			}
			pt := all[r.Intn(len(all))]
			op := sc.Claim(pt, r.Intn(len(pt.Tree.Ws)), e.User(uint64(1+r.Intn(7))).Str)
			op.Bridge, op.Idx = b, pt.Idx
			op.Amt = new(big.Int).Add(op.Amt, new(big.Int).Mul(two64, big.NewInt(int64(1+r.Intn(2)))))
			sc.Case.Do(op)
		case 10: // a special leaf (module-account / escrow recipient, zero amount, twin denom) claimed and resubmitted at once
			if len(live) == 0 || len(base.Tree.Ws) == nOrdinary {
				continue
			}
			pt := live[r.Intn(len(live))]
			if len(pt.Tree.Ws) < len(base.Tree.Ws) {
				continue
			}
			sc.claimTwice(pt, nOrdinary+r.Intn(len(base.Tree.Ws)-nOrdinary), b)
		case 11: // a proven leaf claimed in the other-case twin denom (uinit <-> UINIT)
			if len(live) > 0 {
				sc.twinDenomClaim(live[r.Intn(len(live))], b)
			}
		case 9: // the claim is submitted again from INSIDE its own payout transfer (receiver-side hook)
			if len(live) == 0 {
				continue
			}
			pt := live[r.Intn(len(live))]
			if r.Bool() {
				sc.Advance(period)
			}
			sc.ClaimReentrant(pt, r.Intn(len(pt.Tree.Ws)), b, pt.Idx, e.User(uint64(1+r.Intn(7))).Str)
		}
	}
}

// exhaustive schedules of the given length over {P, D, A, C0, C1, C2}
func c02Exhaustive(emit func(build L1Builder), tier int) {
	if tier == 1 {
		c02Enumerate(emit, nil, 5)
		c02Enumerate(emit, []int{0, 2}, 4)
	} else {
		c02Enumerate(emit, []int{0, 2}, 3)
	}
}

// all schedules prefix ++ w for w of the given length over the six letters
func c02Enumerate(emit func(build L1Builder), prefix []int, length int) {
	total := 1
	for i := 0; i < length; i++ {
		total *= 6
	}
	for idx := 0; idx < total; idx++ {
		idx := idx
		emit(func(sc *L1Scenario) {
			e := sc.Env
			period := 7 * sec
			b, ok := sc.CreateStd(1, 2, period)
			if !ok {
				return
			}
			d := sc.Denoms[0]
			sc.DepositOp(e.User(1).Str, b, "l2recipient", d, 1000, nil)
			var ws []Withdrawal
			for i := 0; i < 3; i++ {
				ws = append(ws, Withdrawal{Bridge: b, Seq: uint64(i + 1), From: "l2user", To: e.User(uint64(4 + i)).Str, Denom: d, Amt: big.NewInt(int64(5 + i))})
			}
			mk := func(ws []Withdrawal, ver byte) *ProposedTree {
				t := BuildTree(ws)
				bh := make([]byte, 32)
				bh[0] = ver
				pt := &ProposedTree{Bridge: b, Tree: t, Version: ver, BHash: bh}
				pt.Root = outputRootOf(ver, t.Root(), bh)
				return pt
			}
			t1 := mk(ws, 0)
			t2 := mk(append(append([]Withdrawal{}, ws...), Withdrawal{Bridge: b, Seq: 4, From: "l2user", To: e.User(7).Str, Denom: d, Amt: big.NewInt(9)}), 1)
			var live []*ProposedTree
			nProposed := 0
			x := idx
			for pos := 0; pos < len(prefix)+length; pos++ {
				var ch int
				if pos < len(prefix) {
					ch = prefix[pos]
				} else {
					ch = x % 6
					x /= 6
				}
				switch ch {
				case 0:
					t := t1
					if nProposed%2 == 1 {
						t = t2
					}
					if cp, ok := sc.ProposeTree(b, t); ok {
						live = append(live, cp)
						nProposed++
					}
				case 1:
					next, _ := e.K.GetNextOutputIndex(e.Ctx, b)
					signer := e.User(2).Str
					sc.reg(signer)
					if res := sc.do(L1Op{Kind: "delete", Sender: signer, Bridge: b, Idx: next - 1}); res.OK {
						live = live[:len(live)-1]
					}
				case 2:
					sc.Advance(period)
				default:
					li := ch - 3
					pt := t1
					target := uint64(1)
					if len(live) > 0 {
						pt = live[len(live)-1]
						target = pt.Idx
					}
					sc.ClaimAt(pt, li, b, target, e.User(uint64(1+pos%7)).Str)
				}
			}
		})
	}
}

func genC02(seed uint64, tier, outdir string) *Report {
	w := DefaultL1Weights
	w.Create, w.Deposit, w.Propose, w.Delete, w.Claim, w.Send = 5, 14, 18, 8, 40, 3
	w.Replay, w.AdvanceChance = 60, 55
	rep := runMoneyStream(MoneyStream{Prop: "C02", Weights: w, NRandom: [2]int{12, 150}, Len: [2]int{60, 140},
		Scripts: []func(*L1Scenario, int){c02Script}, NScript: [2]int{16, 200},
		Monitors: []L1Monitor{c02Monitor, provenLeafMonitor("C02"), reentryMonitor("C02"), outputLogMonitor("C02")}, Extra: c02Exhaustive,
		Prep: moneyPrep, Spice: (*L1Scenario).variantStep, SpicePct: 12,
		Rule: "a case is one L1 history on a fresh instance (scripted resubmission-dense schedule plus random tail, fully random, or one schedule of the exhaustive enumeration); distinct by hash of the op list; non-trivial = at least one finalization accepted and at least one rejected"},
		seed, tier, outdir)
	rep.Exhaustive = true
	what := "propose, advance one period, then all 6^3 schedules of length 3"
	if tier == "thorough" {
		what = "all 6^5 schedules of length 5, and propose, advance one period, then all 6^4 schedules of length 4"
	}
	rep.Notes = append(rep.Notes, "exhaustive: "+what+" over {propose (3-leaf tree / its 4-leaf superset alternating), delete last, advance one period, claim leaf 0, 1, 2 against the latest output}")
	return rep
}
