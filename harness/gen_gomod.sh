#!/bin/bash
# Regenerates harness/go.mod from /repo/go.mod so the harness always compiles /repo's working tree.
set -e
cd "$(dirname "$0")"
REPO=${VERIF_REPO:-/repo}
{
  echo "module verifharness"
  echo
  sed -n '/^go /p;/^toolchain /p' $REPO/go.mod
  echo
  echo "require github.com/initia-labs/OPinit v0.0.0"
  echo
  # copy all require blocks and replace directives
  awk '/^require \(/,/^\)/' $REPO/go.mod
  awk '/^replace \(/,/^\)/' $REPO/go.mod
  grep -E '^replace [^(]' $REPO/go.mod | grep -v 'initia-labs/OPinit' || true
  echo
  echo "replace github.com/initia-labs/OPinit => $REPO"
  echo "replace github.com/initia-labs/OPinit/api => $REPO/api"
} > go.mod.new
cat $REPO/go.sum $REPO/go.work.sum 2>/dev/null | sort -u > go.sum.new
if ! cmp -s go.mod.new go.mod.gen 2>/dev/null; then cp go.mod.new go.mod.gen; cp go.mod.new go.mod; fi
if ! cmp -s go.sum.new go.sum.gen 2>/dev/null; then cp go.sum.new go.sum.gen; cp go.sum.new go.sum; fi
rm -f go.mod.new go.sum.new
