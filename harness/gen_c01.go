package main

import (
	"fmt"
	"math/big"

	sdk "github.com/cosmos/cosmos-sdk/types"
)

// C01: L1 escrow conservation ledger and per-bridge isolation.
// Streams: (a) scripted multi-bridge histories with cross-bridge replays (a bridge-1 claim
// submitted to bridge 2 after proposing the same root there), twin withdrawals (same sequence and
// fields on two bridges), payouts whose recipient is another bridge's escrow address, donations
// to escrow addresses, followed by a random tail; (b) generic random multi-bridge histories.
// The monitor is model-free: it recomputes the ledger of every (bridge, denom) from the
// operations and verdicts alone and compares it with the bank after every operation, and checks
// that an operation addressed to bridge b changes no other bridge's records or claim flags and
// no uninvolved account.

func init() { register("C01", genC01) }

func l1Addressed(o L1Op, v l1View) (uint64, bool) {
	switch o.Kind {
	case "create":
		if v.OK() {
			id, _ := v.RespN()
			return id, true
		}
		return 0, false
	case "uparams", "send", "chanset", "adminset":
		return 0, false
	}
	return o.Bridge, true
}

func c01Monitor(rep *Report, c *L1Case) {
	tr := c.Track
	if len(c.Ops) == 0 || viewL1(c.Obs[0]).OK() {
		l1Violate(rep, c, 0, "C01:baseline", "the baseline operation (empty sender) was accepted")
		return
	}
	prev := viewL1(c.Obs[0])
	// ledger[bridge index][denom index]
	ledger := make([][]*big.Int, len(tr.Bridges))
	escIdx := make([]int, len(tr.Bridges))
	for bi, b := range tr.Bridges {
		escIdx[bi] = idxU(tr.Accts, EscrowBase+b)
		ledger[bi] = make([]*big.Int, len(tr.Denoms))
		for di := range tr.Denoms {
			ledger[bi][di] = new(big.Int)
			if escIdx[bi] >= 0 {
				ledger[bi][di].Set(prev.Bal(tr, escIdx[bi], di))
			}
		}
	}
	claimBridge := func(j int) string { return tr.Claims[j][0] }
	for i := 1; i < len(c.Ops); i++ {
		o := c.Ops[i]
		v := viewL1(c.Obs[i])
		ok := v.OK()
		di := idxS(tr.Denoms, o.Denom)
		// ---- ledger columns of this step ----
		if ok && di >= 0 {
			switch o.Kind {
			case "deposit":
				if bi := idxU(tr.Bridges, o.Bridge); bi >= 0 {
					ledger[bi][di].Add(ledger[bi][di], o.Amt)
				}
			case "finalize":
				if bi := idxU(tr.Bridges, o.Bridge); bi >= 0 {
					ledger[bi][di].Sub(ledger[bi][di], o.Amt)
				}
				if rcv := c.idOf(o.To); rcv > EscrowBase {
					if bi := idxU(tr.Bridges, rcv-EscrowBase); bi >= 0 {
						ledger[bi][di].Add(ledger[bi][di], o.Amt)
					}
				}
			case "send":
				if o.ToID > EscrowBase {
					if bi := idxU(tr.Bridges, o.ToID-EscrowBase); bi >= 0 {
						ledger[bi][di].Add(ledger[bi][di], o.Amt)
					}
				}
				if o.FromID > EscrowBase { // never generated: nobody holds an escrow key
					if bi := idxU(tr.Bridges, o.FromID-EscrowBase); bi >= 0 {
						ledger[bi][di].Sub(ledger[bi][di], o.Amt)
					}
				}
			}
		}
		for bi, b := range tr.Bridges {
			if escIdx[bi] < 0 {
				continue
			}
			for dj, d := range tr.Denoms {
				got := v.Bal(tr, escIdx[bi], dj)
				if got.Cmp(ledger[bi][dj]) != 0 {
					l1Violate(rep, c, i, "C01:ledger", fmt.Sprintf("escrow of bridge %d holds %s%s but initial + deposits + plain credits - finalized withdrawals = %s", b, got, d, ledger[bi][dj]))
					ledger[bi][dj].Set(got)
				}
				if got.Cmp(prev.Bal(tr, escIdx[bi], dj)) < 0 && !(o.Kind == "finalize" && ok && o.Bridge == b && o.Denom == d) {
					l1Violate(rep, c, i, "C01:escrow-outflow", fmt.Sprintf("%s lowered the %s balance of the escrow of bridge %d", o.Kind, d, b))
				}
			}
		}
		// ---- isolation of records ----
		ab, has := l1Addressed(o, v)
		for bi, b := range tr.Bridges {
			if has && b == ab {
				continue
			}
			if bridgeStable(v.Bridge(bi)) != bridgeStable(prev.Bridge(bi)) {
				l1Violate(rep, c, i, "C01:isolation-records", fmt.Sprintf("%s addressed to bridge %d changed the records of bridge %d", o.Kind, ab, b))
			}
		}
		for j := 0; j < prev.NClaims() && j < v.NClaims(); j++ {
			if has && claimBridge(j) == fmt.Sprint(ab) {
				continue
			}
			if v.Claimed(j) != prev.Claimed(j) {
				l1Violate(rep, c, i, "C01:isolation-claims", fmt.Sprintf("%s addressed to bridge %d changed a claim record of bridge %s", o.Kind, ab, claimBridge(j)))
			}
		}
		// ---- isolation of balances ----
		allowed := map[uint64]bool{}
		anyDenom := false
		switch o.Kind {
		case "deposit":
			allowed[c.idOf(o.Sender)], allowed[EscrowBase+o.Bridge] = true, true
		case "finalize":
			allowed[c.idOf(o.To)], allowed[EscrowBase+o.Bridge] = true, true
		case "create":
			allowed[c.idOf(o.Sender)], allowed[ModDistr] = true, true
			anyDenom = true
		case "send":
			allowed[o.FromID], allowed[o.ToID] = true, true
		}
		for ai, a := range tr.Accts {
			for dj, d := range tr.Denoms {
				if v.Bal(tr, ai, dj).Cmp(prev.Bal(tr, ai, dj)) == 0 {
					continue
				}
				if !allowed[a] || !(anyDenom || d == o.Denom) {
					l1Violate(rep, c, i, "C01:uninvolved-balance", fmt.Sprintf("%s (bridge %d) changed the %s balance of account %d, which is neither signer, named recipient nor that bridge's escrow", o.Kind, o.Bridge, d, a))
				}
			}
		}
		if !ok && v.StableState() != prev.StableState() {
			l1Violate(rep, c, i, "C01:error-changed-state", "a rejected "+o.Kind+" changed observable state")
		}
		prev = v
	}
}

func (sc *L1Scenario) customTree(b uint64, ws []Withdrawal) *ProposedTree {
	t := BuildTree(ws)
	pt := &ProposedTree{Bridge: b, Tree: t, Version: byte(sc.R.Intn(3)), BHash: sc.R.Bytes(32)}
	pt.Root = outputRootOf(pt.Version, t.Root(), pt.BHash)
	return pt
}

// scripted: three bridges of one proposer, cross-bridge replays, twins, escrow recipients, donations
func c01Script(sc *L1Scenario, tier int) {
	e, r := sc.Env, sc.R
	period := []int64{sec, 7 * sec}[r.Intn(2)]
	var bs []uint64
	for k := 0; k < 3; k++ {
		if b, ok := sc.CreateStd(1, uint64(2+k), period); ok {
			bs = append(bs, b)
		}
	}
	if len(bs) < 2 {
		return
	}
	for _, b := range bs {
		sc.fundEscrow(b, int64(500+100*int(b)))
	}
	sc.fundBig(bs[0])
	escAddr := func(b uint64) string { return sdk.AccAddress(e.AddrOf(EscrowBase + b)).String() }
	// a tree for bs[0] with ordinary leaves, a leaf paying the escrow of bs[1] and one paying its own escrow
	var ws []Withdrawal
	n := 2 + r.Intn(4)
	for k := 0; k < n; k++ {
		to := e.User(uint64(1 + r.Intn(7))).Str
		switch {
		case k == 1:
			to = escAddr(bs[1])
		case k == 2 && r.Bool():
			to = escAddr(bs[0])
		}
		ws = append(ws, Withdrawal{Bridge: bs[0], Seq: uint64(k + 1), From: "l2user", To: to, Denom: sc.Denoms[r.Intn(len(sc.Denoms))], Amt: big.NewInt(int64(1 + r.Intn(60)))})
	}
	nOrdinary := len(ws)
	ws = append(ws, sc.specialLeaves(bs[0], uint64(len(ws)+1))...)
	t0 := sc.customTree(bs[0], ws)
	// its twin for bs[1]: same sequences and fields, other bridge id
	var ws1 []Withdrawal
	for _, w := range ws {
		w.Bridge = bs[1]
		ws1 = append(ws1, w)
	}
	t1 := sc.customTree(bs[1], ws1)
	// one unrelated output first, so that the output indices used below differ from the bridge ids
	for _, b := range bs {
		sc.NextWSeq[b] = uint64(len(ws) + 1)
		sc.ProposeTree(b, sc.MakeTree(b, 1))
	}
	p00, ok00 := sc.ProposeTree(bs[0], t0) // bridge-0 tree on bridge 0
	p01, ok01 := sc.ProposeTree(bs[1], t0) // the same root on bridge 1
	p11, ok11 := sc.ProposeTree(bs[1], t1) // the twin on bridge 1
	// every bridge gets two more (not yet final) outputs; then the last output of a LOWER-id bridge is
	// deleted while the higher-id bridges hold outputs
	extraOut := func(b uint64) { sc.ProposeTree(b, sc.MakeTree(b, 1+r.Intn(2))) }
	delLast := func(b uint64) {
		next, _ := e.K.GetNextOutputIndex(e.Ctx, b)
		_, chal, _, ok := sc.Config(b)
		if !ok || next < 2 {
			return
		}
		sc.reg(chal)
		sc.do(L1Op{Kind: "delete", Sender: chal, Bridge: b, Idx: next - 1})
	}
	for _, b := range bs {
		extraOut(b)
		extraOut(b)
	}
	delLast(bs[0])
	delLast(bs[1])
	steps := 30
	if tier == 1 {
		steps = 60
	}
	for i := 0; i < steps; i++ {
		sub := e.User(uint64(1 + r.Intn(7))).Str
		switch r.Weighted([]int{14, 22, 18, 12, 14, 12, 8, 10, 8, 10, 12, 12}) {
		case 0:
			sc.Advance([]int64{period, period + sec, sec}[r.Intn(3)])
		case 1: // honest claim on bridge 0
			if ok00 {
				sc.ClaimAt(p00, r.Intn(len(ws)), bs[0], p00.Idx, sub)
			}
		case 2: // the bridge-0 claim replayed on bridge 1 against the output holding the same root
			if ok01 {
				sc.ClaimAt(p01, r.Intn(len(ws)), bs[1], p01.Idx, sub)
			}
		case 3: // the twin claim on bridge 1 (independent of the one on bridge 0)
			if ok11 {
				sc.ClaimAt(p11, r.Intn(len(ws1)), bs[1], p11.Idx, sub)
			}
		case 4: // the twin's fields sent to bridge 0, and a bridge-0 claim against a bridge-1 index
			if ok11 && r.Bool() {
				sc.ClaimAt(p11, r.Intn(len(ws1)), bs[0], p11.Idx, sub)
			} else if ok00 {
				sc.ClaimAt(p00, r.Intn(len(ws)), bs[len(bs)-1], p00.Idx, sub)
			}
		case 5: // donation to an escrow address
			b := bs[r.Intn(len(bs))]
			sc.do(L1Op{Kind: "send", FromID: uint64(1 + r.Intn(7)), ToID: EscrowBase + b, Denom: sc.Denoms[r.Intn(len(sc.Denoms))], Amt: big.NewInt(int64(1 + r.Intn(90)))})
		case 6: // deposit into a random bridge (existing or not)
			sc.DepositOp(sub, uint64(1+r.Intn(4)), "l2recipient", sc.Denoms[r.Intn(len(sc.Denoms))], int64(r.Intn(120)), nil)
		case 7: // a new output on some bridge, then the last output of a lower-id bridge is deleted
			extraOut(bs[r.Intn(len(bs))])
			delLast(bs[r.Intn(len(bs)-1)])
		case 8: // a paid claim with the recipient in upper case / a claim with amount + k*2^64
			sc.variantStep()
		case 10: // a special leaf (module-account / escrow recipient, zero amount, twin denom) claimed and resubmitted
			if ok00 {
				sc.claimTwice(p00, nOrdinary+r.Intn(len(ws)-nOrdinary), bs[0])
			}
		case 11: // a proven leaf claimed in the other-case twin denom (uinit <-> UINIT)
			if ok00 {
				sc.twinDenomClaim(p00, bs[0])
			}
		case 9: // a valid claim on the richly funded bridge with amount + k*2^64 (same low 64 bits)
			if ok00 {
				op := sc.Claim(p00, r.Intn(len(ws)), sub)
				op.Amt = new(big.Int).Add(op.Amt, new(big.Int).Mul(two64, big.NewInt(int64(1+r.Intn(2)))))
				sc.Case.Do(op)
			}
		}
	}
}

// one case per run (three in thorough): 70 bridges; deposits, donations, proposals and claims on ids
// 1, 2, 65, 66 (ids congruent modulo 64); the tracked escrow ACCOUNTS are the documented
// addresses derived in the harness, so a shared or mis-derived escrow shows in the ledger
func c01ManyBridges(emit func(build L1Builder), tier int) {
	n := 1
	if tier == 1 {
		n = 3
	}
	for k := 0; k < n; k++ {
		emit(func(sc *L1Scenario) {
			e, r := sc.Env, sc.R
			ids := []uint64{1, 2, 65, 66}
			sc.Case.Track.Bridges = ids
			sc.Case.Track.Accts = []uint64{1, 2, 3, 4, 5, 6, 7, ModGov, ModDistr, EscrowBase + 1, EscrowBase + 2, EscrowBase + 65, EscrowBase + 66}
			period := sec
			for b := 1; b <= 70; b++ {
				if _, ok := sc.CreateStd(1, uint64(2+b%6), period); !ok {
					return
				}
			}
			trees := map[uint64]*ProposedTree{}
			for _, b := range ids {
				for i, d := range sc.Denoms[:2] {
					sc.DepositOp(e.User(uint64(2+i)).Str, b, "l2recipient", d, int64(300+10*int(b%64)+r.Intn(50)), nil)
				}
				sc.do(L1Op{Kind: "send", FromID: uint64(1 + r.Intn(6)), ToID: EscrowBase + b, Denom: sc.Denoms[0], Amt: big.NewInt(int64(1 + r.Intn(40)))})
				var ws []Withdrawal
				for q := 0; q < 3; q++ {
					ws = append(ws, Withdrawal{Bridge: b, Seq: uint64(q + 1), From: "l2user", To: e.User(uint64(1 + r.Intn(6))).Str, Denom: sc.Denoms[r.Intn(2)], Amt: big.NewInt(int64(1 + r.Intn(40)))})
				}
				if pt, ok := sc.ProposeTree(b, sc.customTree(b, ws)); ok {
					trees[b] = pt
				}
			}
			sc.Advance(2 * period)
			for round := 0; round < 12; round++ {
				b := ids[r.Intn(len(ids))]
				switch r.Intn(3) {
				case 0:
					if pt := trees[b]; pt != nil {
						sc.ClaimAt(pt, r.Intn(3), b, pt.Idx, e.User(uint64(1+r.Intn(6))).Str)
					}
				case 1:
					sc.DepositOp(e.User(uint64(1+r.Intn(6))).Str, b, "l2recipient", sc.Denoms[r.Intn(2)], int64(1+r.Intn(90)), nil)
				case 2:
					sc.do(L1Op{Kind: "send", FromID: uint64(1 + r.Intn(6)), ToID: EscrowBase + b, Denom: sc.Denoms[r.Intn(2)], Amt: big.NewInt(int64(1 + r.Intn(40)))})
				}
			}
		})
	}
}

// scripted: three bridges of one proposer with DIFFERENT output logs - different roots at the same
// index, different lengths (3, 3, 2 outputs), different finalization periods.  Output i of bridge
// k commits to honest leaves of bridge k and, when i is another bridge's id, to leaves carrying
// bridge id i.  Claims: honest ones on bridge k against its own output i (also i != k; must be
// paid once final by k's period) and claims on bridge b against index k with the leaf, proof
// and root that only bridge k's output number b commits to (must be refused).
func c01ForeignScript(sc *L1Scenario, tier int) {
	e, r := sc.Env, sc.R
	base := []int64{sec, 7 * sec, 2*sec + 500000000}
	off := r.Intn(3)
	periods := []int64{base[off], base[(off+1)%3], base[(off+2)%3]}
	var bs []uint64
	for k := 0; k < 3; k++ {
		if b, ok := sc.CreateStd(1, uint64(2+k), periods[k]); ok {
			bs = append(bs, b)
		}
	}
	if len(bs) < 3 {
		return
	}
	for _, b := range bs {
		sc.fundEscrow(b, int64(400+50*int(b)))
		sc.NextWSeq[b] = 1
	}
	isBridge := func(x uint64) bool { return idxU(bs, x) >= 0 }
	mkW := func(b uint64) Withdrawal {
		w := Withdrawal{Bridge: b, Seq: sc.NextWSeq[b], From: "l2user", To: e.User(uint64(1 + r.Intn(7))).Str, Denom: sc.Denoms[r.Intn(len(sc.Denoms))], Amt: big.NewInt(int64(1 + r.Intn(30)))}
		sc.NextWSeq[b]++
		return w
	}
	type slot struct {
		pt      *ProposedTree
		honest  []int // leaf positions carrying the own bridge id
		foreign []int // leaf positions carrying the bridge id equal to the output index
	}
	outs := map[[2]uint64]*slot{}
	lens := []uint64{3, 3, 2}
	for ki, k := range bs {
		for i := uint64(1); i <= lens[ki]; i++ {
			s := &slot{}
			var ws []Withdrawal
			for q := 0; q < 2; q++ {
				s.honest = append(s.honest, len(ws))
				ws = append(ws, mkW(k))
			}
			if isBridge(i) && i != k {
				for q := 0; q < 1+r.Intn(2); q++ {
					s.foreign = append(s.foreign, len(ws))
					ws = append(ws, mkW(i))
				}
			}
			if pt, ok := sc.ProposeTree(k, sc.customTree(k, ws)); ok {
				s.pt = pt
				outs[[2]uint64{k, i}] = s
			}
			if r.Chance(40) {
				sc.Advance([]int64{sec, 500000000, 2 * sec}[r.Intn(3)])
			}
		}
	}
	steps := 26
	if tier == 1 {
		steps = 50
	}
	for n := 0; n < steps; n++ {
		sub := e.User(uint64(1 + r.Intn(7))).Str
		k := bs[r.Intn(len(bs))]
		i := uint64(1 + r.Intn(3))
		s := outs[[2]uint64{k, i}]
		switch r.Weighted([]int{18, 38, 30, 8, 6}) {
		case 0:
			sc.Advance([]int64{sec, 2 * sec, 7 * sec, 500000000}[r.Intn(4)])
		case 1: // honest claim on bridge k against its own output i (i may differ from k)
			if s != nil {
				sc.ClaimAt(s.pt, s.honest[r.Intn(len(s.honest))], k, i, sub)
			}
		case 2: // claim on bridge i against index k with what only bridge k's output number i commits to
			if s != nil && len(s.foreign) > 0 {
				sc.ClaimAt(s.pt, s.foreign[r.Intn(len(s.foreign))], i, k, sub)
			}
		case 3: // an honest leaf of (k, i) submitted to the transposed position (bridge i, index k)
			if s != nil && isBridge(i) {
				sc.ClaimAt(s.pt, s.honest[r.Intn(len(s.honest))], i, k, sub)
			}
		case 4: // donation
			sc.do(L1Op{Kind: "send", FromID: uint64(1 + r.Intn(6)), ToID: EscrowBase + k, Denom: sc.Denoms[r.Intn(len(sc.Denoms))], Amt: big.NewInt(int64(1 + r.Intn(60)))})
		}
	}
}

func genC01(seed uint64, tier, outdir string) *Report {
	w := DefaultL1Weights
	w.Create, w.Deposit, w.Propose, w.Delete, w.Claim, w.Send, w.Params = 8, 22, 16, 12, 26, 10, 4
	return runMoneyStream(MoneyStream{Prop: "C01", Weights: w, NRandom: [2]int{18, 200}, Len: [2]int{60, 140},
		Scripts: []func(*L1Scenario, int){c01Script, c01ForeignScript}, NScript: [2]int{12, 130},
		Monitors: []L1Monitor{c01Monitor, provenLeafMonitor("C01"), doublePayMonitor("C01"), outputLogMonitor("C01")}, Extra: c01ManyBridges,
		Prep: moneyPrep, Spice: (*L1Scenario).variantStep, SpicePct: 10,
		Rule: "a case is one multi-bridge L1 history on a fresh instance (scripted cross-bridge replay scenario plus random tail, or fully random); distinct by hash of the op list; non-trivial = at least one finalization accepted and at least one rejected"},
		seed, tier, outdir)
}
