package main

import "strconv"

// Shrinking of failing L2 histories by delta debugging (ddmin over op indices).
//
// A stream that found monitor violations in a case hands over: how to build a FRESH scenario from
// the same seed (same accounts, address table, initial metadata), and the monitor it used.  For
// the first violation of each distinct signature (at most l2ShrinkPerRun per run) the op prefix up
// to the failing step is minimised: every candidate subsequence is re-executed on a fresh scenario
// and the SAME monitor is re-evaluated; a candidate "still fails" iff the same signature is
// reported at any step.  Work is bounded by a number of re-executions (no wall clock: runs stay
// reproducible); when the bound is hit the best history found so far is kept (the prefix if
// nothing smaller failed).  No violations => nothing happens.

const (
	l2ShrinkPerRun     = 3   // violations minimised per run
	l2ShrinkMaxReplays = 150 // re-executions per violation
)

var l2Shrunk = map[*Report]int{} // violations minimised so far, per report

// l2Replayer describes how a case was produced.
type l2Replayer struct {
	Fresh   func() *L2Scenario                    // scenario in the state the case started from
	Monitor func(rep *Report, c *L2Case, init Ov) // the monitors the stream applied to the case
}

// ddminIdx minimises the index list idx under test (test(idx) must hold on entry); budget counts
// calls of test.  Classic ddmin: try subsets, then complements, then refine the granularity.
func ddminIdx(idx []int, test func([]int) bool, budget *int) []int {
	n := 2
	for len(idx) >= 2 {
		chunk := (len(idx) + n - 1) / n
		reduced := false
		// subsets
		for i := 0; i < len(idx) && !reduced; i += chunk {
			j := i + chunk
			if j > len(idx) {
				j = len(idx)
			}
			if *budget <= 0 {
				return idx
			}
			*budget--
			sub := append([]int{}, idx[i:j]...)
			if len(sub) < len(idx) && test(sub) {
				idx, n, reduced = sub, 2, true
			}
		}
		// complements
		for i := 0; i < len(idx) && !reduced && n > 2; i += chunk {
			j := i + chunk
			if j > len(idx) {
				j = len(idx)
			}
			if *budget <= 0 {
				return idx
			}
			*budget--
			comp := append(append([]int{}, idx[:i]...), idx[j:]...)
			if len(comp) > 0 && test(comp) {
				idx, reduced = comp, true
				if n > 2 {
					n--
				}
			}
		}
		if !reduced {
			if n >= len(idx) {
				break
			}
			n *= 2
			if n > len(idx) {
				n = len(idx)
			}
		}
	}
	return idx
}

// registerOpStrings enters the address strings of an op into the scenario's table (what the
// generators do with sc.register before executing it).
func registerOpStrings(sc *L2Scenario, o L2Op) {
	sc.register(o.Sender, o.To)
	if o.Params != nil {
		sc.register(o.Params.Admin)
		sc.register(o.Params.Execs...)
	}
	for _, in := range o.Inner {
		registerOpStrings(sc, in)
	}
}

// doL2Op executes one op on a case, with the fault the op carries (fault-injected histories).
func doL2Op(c *L2Case, o L2Op) ExecResult {
	e := c.Env
	if o.FaultAt != 0 && e.Fault != nil {
		*e.Fault = FaultPlan{FailAt: o.FaultAt, Panic: o.FaultPanic}
		defer func() { *e.Fault = FaultPlan{Disabled: true} }()
	}
	return c.Do(o)
}

// relOp is an op together with the offsets of its deposit sequence(s) from the NextL1Sequence in
// force when it was first executed: a candidate subsequence is re-numbered on replay (a deposit
// that was "at the expected sequence" / "one behind" / "two ahead" stays so), otherwise removing
// one processed deposit would turn every later one into a rejected message and nothing could be
// dropped.  The minimised history stored in the violation is the re-numbered, concrete one.
type relOp struct {
	Op     L2Op
	Delta  int64   // fdep
	Deltas []int64 // exec: inner deposits
	Rel    bool
}

func seqDelta(seq, n1 uint64) (int64, bool) {
	d := int64(seq) - int64(n1)
	if seq > 1<<40 || d > 1000 || d < -1000 {
		return 0, false
	}
	return d, true
}

func relativise(c *L2Case, upto int) []relOp {
	out := make([]relOp, upto)
	n1 := c.NextL1
	for i := 0; i < upto; i++ {
		o := c.Ops[i]
		r := relOp{Op: o}
		switch o.Kind {
		case "fdep":
			r.Delta, r.Rel = seqDelta(o.Seq, n1)
		case "exec":
			r.Rel = true
			for _, in := range o.Inner {
				d, ok := seqDelta(in.Seq, n1)
				if in.Kind != "fdep" {
					d, ok = 0, true
				}
				r.Deltas = append(r.Deltas, d)
				r.Rel = r.Rel && ok
			}
		}
		out[i] = r
		n1 = l2ViewOf(c.Track, c.Obs[i]).N1
	}
	return out
}

func (r relOp) at(n1 uint64) L2Op {
	o := r.Op
	if !r.Rel {
		return o
	}
	switch o.Kind {
	case "fdep":
		if v := int64(n1) + r.Delta; v >= 0 {
			o.Seq = uint64(v)
		}
	case "exec":
		inner := append([]L2Op{}, o.Inner...)
		for j := range inner {
			if v := int64(n1) + r.Deltas[j]; inner[j].Kind == "fdep" && v >= 0 {
				inner[j].Seq = uint64(v)
			}
		}
		o.Inner = inner
	}
	return o
}

// replayL2 re-executes (re-numbered) ops on a fresh scenario; returns the signatures the monitor
// reports and the concrete ops executed.
func replayL2(rp l2Replayer, ops []relOp) (map[string]bool, []L2Op) {
	sc := rp.Fresh()
	c := sc.Case
	init := sc.Env.L2Obs(c.Track, ExecResult{OK: true})
	for _, ro := range ops {
		n1, _ := sc.Env.K.GetNextL1Sequence(sc.Env.Ctx)
		o := ro.at(n1)
		registerOpStrings(sc, o)
		doL2Op(c, o)
	}
	scratch := NewReport("shrink", 0, "quick")
	rp.Monitor(scratch, c, init)
	sigs := map[string]bool{}
	for _, v := range scratch.Violations {
		sigs[v.Sig] = true
	}
	return sigs, c.Ops
}

// shrinkL2Violations minimises the histories of the violations rep.Violations[from:] (those the
// monitor just added for the case with operations ops).
func shrinkL2Violations(rep *Report, from int, c *L2Case, rp l2Replayer) {
	ops := c.Ops
	seen := map[string]bool{}
	for vi := from; vi < len(rep.Violations); vi++ {
		v := &rep.Violations[vi]
		if seen[v.Sig] || l2Shrunk[rep] >= l2ShrinkPerRun || v.Step < 0 || v.Step >= len(ops) {
			continue
		}
		seen[v.Sig] = true
		l2Shrunk[rep]++
		prefix := relativise(c, v.Step+1)
		idx := make([]int, len(prefix))
		for i := range idx {
			idx[i] = i
		}
		budget := l2ShrinkMaxReplays
		sig := v.Sig
		var lastOps []L2Op
		run := func(sub []int) (bool, []L2Op) {
			cand := make([]relOp, len(sub))
			for i, k := range sub {
				cand[i] = prefix[k]
			}
			sigs, concrete := replayL2(rp, cand)
			return sigs[sig], concrete
		}
		test := func(sub []int) bool {
			ok, _ := run(sub)
			return ok
		}
		// the prefix itself must reproduce on a fresh scenario, otherwise keep it untouched
		budget--
		if !test(idx) {
			v.Detail = map[string]interface{}{"shrunk_from": len(prefix), "shrunk": false, "note": "the prefix did not reproduce on a fresh scenario"}
			continue
		}
		min := ddminIdx(idx, test, &budget)
		_, lastOps = run(min)
		hist := lastOps
		v.Ops = opsCoq(hist)
		v.Detail = map[string]interface{}{"shrunk_from": len(prefix), "shrunk_to": len(hist), "replays": l2ShrinkMaxReplays - budget,
			"bound_hit": budget <= 0, "kept_op_indices": min, "renumbered": "deposit sequences keep their offset from NextL1Sequence"}
		v.What += " [history minimised from " + strconv.Itoa(len(prefix)) + " to " + strconv.Itoa(len(hist)) + " operations; numbers in this message are those of the original run]"
		v.Step = len(hist) - 1
		rep.Notes = append(rep.Notes, "shrunk "+sig+": "+strconv.Itoa(len(prefix))+" -> "+strconv.Itoa(len(hist))+" operations in "+strconv.Itoa(l2ShrinkMaxReplays-budget)+" re-executions")
	}
}
