package main

import (
	"encoding/binary"
	"encoding/hex"
	"fmt"
	"math/big"
	"strconv"

	sdk "github.com/cosmos/cosmos-sdk/types"
	"golang.org/x/crypto/sha3"
)

const t0 = int64(1704067200) * 1e9 // 2024-01-01T00:00:00Z in ns
const sec = int64(1e9)

// ---- independent implementation of the published tree rule (golang.org/x/crypto/sha3 only) ----
func h3(b []byte) []byte { x := sha3.Sum256(b); return x[:] }
func be8(v uint64) []byte { b := make([]byte, 8); binary.BigEndian.PutUint64(b, v); return b }

func (w Withdrawal) Leaf() []byte {
	seed := append(be8(w.Bridge), be8(w.Seq)...)
	seed = append(seed, h3([]byte(w.From))...)
	seed = append(seed, h3([]byte(w.To))...)
	seed = append(seed, h3([]byte(w.Denom))...)
	seed = append(seed, be8(w.Amt.Uint64())...)
	return h3(h3(seed))
}

type Tree struct {
	Ws     []Withdrawal
	Levels [][][]byte
}

func BuildTree(ws []Withdrawal) *Tree {
	t := &Tree{Ws: ws}
	var lvl [][]byte
	for _, w := range ws {
		lvl = append(lvl, w.Leaf())
	}
	t.Levels = append(t.Levels, lvl)
	for len(lvl) > 1 {
		var next [][]byte
		for i := 0; i < len(lvl); i += 2 {
			a := lvl[i]
			b := a
			if i+1 < len(lvl) {
				b = lvl[i+1]
			}
			next = append(next, h3(sortedPair(a, b)))
		}
		t.Levels = append(t.Levels, next)
		lvl = next
	}
	return t
}
func (t *Tree) Root() []byte { return t.Levels[len(t.Levels)-1][0] }
func (t *Tree) Proof(i int) [][]byte {
	var p [][]byte
	for l := 0; l < len(t.Levels)-1; l++ {
		lvl := t.Levels[l]
		sib := i ^ 1
		if sib >= len(lvl) {
			sib = i
		}
		p = append(p, append([]byte{}, lvl[sib]...))
		i /= 2
	}
	return p
}
func outputRootOf(version byte, sroot, bhash []byte) []byte {
	return h3(append(append([]byte{version}, sroot...), bhash...))
}

// ---- scenario ----
type ProposedTree struct {
	Bridge  uint64
	Idx     uint64
	Tree    *Tree
	Version byte
	BHash   []byte
	Root    []byte // output root
}

type L1Scenario struct {
	Env     *L1Env
	Case    *L1Case
	R       *Rng
	Now     int64
	Height  uint64
	Denoms  []string
	Trees   []*ProposedTree
	NextWSeq map[uint64]uint64 // per bridge: next virtual L2 withdrawal sequence
	Periods []int64
	ClaimSet map[string]bool
	wts      L1Weights
}

func NewL1Scenario(seed uint64, id int, hookFactory func(e *L1Env) ) *L1Scenario {
	e := NewL1Env(seed, 7, nil)
	sc := &L1Scenario{Env: e, R: NewRng(seed), Now: t0, Height: 100, Denoms: []string{"uinit", "uusdc", "ibc/27394FB092D2ECCD56123C74F36E4C1F926001CEADA9CA97EA622B25F41E5EB2"},
		NextWSeq: map[uint64]uint64{}, ClaimSet: map[string]bool{}, wts: DefaultL1Weights}
	for _, u := range e.Users {
		var cs sdk.Coins
		for _, d := range sc.Denoms {
			cs = append(cs, sdk.NewInt64Coin(d, 100000))
		}
		e.Fund(u.Addr, cs.Sort())
	}
	accts := []uint64{1, 2, 3, 4, 5, 6, 7, ModGov, ModDistr, EscrowBase + 1, EscrowBase + 2, EscrowBase + 3, EscrowBase + 4}
	sc.Case = &L1Case{ID: id, Env: e, Track: &L1Track{Accts: accts, Denoms: sc.Denoms, Bridges: []uint64{1, 2, 3, 4}}, Parse: map[string]string{}}
	sc.Case.Snapshot()
	sc.Periods = []int64{sec, 7 * sec, 1, 999999999, 3600 * sec, 2*sec + 500000000}
	return sc
}

func (sc *L1Scenario) op(o L1Op) L1Op { o.Now, o.Height = sc.Now, sc.Height; return o }
func (sc *L1Scenario) Advance(dt int64) {
	sc.Now += dt
	sc.Height++
}

func (sc *L1Scenario) reg(ss ...string) {
	for _, s := range ss {
		sc.Env.Resolve(s)
	}
}

// address strings of several classes
func (sc *L1Scenario) AddrString(class int) string {
	e := sc.Env
	switch class {
	case 0:
		return e.User(uint64(1 + sc.R.Intn(len(e.Users)))).Str
	case 1:
		return upperBech32(e.User(uint64(1 + sc.R.Intn(len(e.Users)))).Str)
	case 2:
		return e.Auth
	default:
		bad := []string{"", "nope", e.User(1).Str + "q", "cosmosvaloper1xyz"}
		return bad[sc.R.Intn(len(bad))]
	}
}

func (sc *L1Scenario) NewConfig(proposer, challenger uint64, period int64) *L1Config {
	e := sc.Env
	return &L1Config{Proposer: e.User(proposer).Str, Challenger: e.User(challenger).Str, Period: period, Interval: 10 * sec, Start: 1,
		Submitter: e.User(proposer).Str, Chain: 1, Meta: []byte("meta")}
}

func (sc *L1Scenario) Create(creator string, cfg *L1Config) L1Op {
	sc.reg(creator, cfg.Proposer, cfg.Challenger)
	return sc.op(L1Op{Kind: "create", Sender: creator, Config: cfg})
}

func (sc *L1Scenario) Config(b uint64) (proposer, challenger string, period int64, ok bool) {
	cfg, err := sc.Env.K.GetBridgeConfig(sc.Env.Ctx, b)
	if err != nil {
		return "", "", 0, false
	}
	return cfg.Proposer, cfg.Challenger, int64(cfg.FinalizationPeriod), true
}

// MakeTree builds a batch of virtual L2 withdrawals for bridge b (sizes 1..n) and returns the
// proposal data; amounts are small so that a funded escrow can pay them.
func (sc *L1Scenario) MakeTree(b uint64, n int) *ProposedTree {
	e := sc.Env
	if sc.NextWSeq[b] == 0 {
		sc.NextWSeq[b] = 1
	}
	var ws []Withdrawal
	for i := 0; i < n; i++ {
		to := e.User(uint64(1 + sc.R.Intn(len(e.Users)))).Str
		if sc.R.Chance(5) {
			to = sdk.AccAddress(e.AddrOf(EscrowBase + 1 + uint64(sc.R.Intn(3)))).String()
		}
		from := []string{"l2user1", e.User(2).Str, "0xdeadbeef", "init1longlonglonglonglonglonglonglonglonglonglonglonglong"}[sc.R.Intn(4)]
		amt := big.NewInt(int64(1 + sc.R.Intn(40)))
		ws = append(ws, Withdrawal{Bridge: b, Seq: sc.NextWSeq[b], From: from, To: to, Denom: sc.Denoms[sc.R.Intn(len(sc.Denoms))], Amt: amt})
		sc.NextWSeq[b]++
	}
	t := BuildTree(ws)
	pt := &ProposedTree{Bridge: b, Tree: t, Version: byte(sc.R.Intn(3)), BHash: sc.R.Bytes(32)}
	pt.Root = outputRootOf(pt.Version, t.Root(), pt.BHash)
	return pt
}

func (sc *L1Scenario) Claim(pt *ProposedTree, i int, submitter string) L1Op {
	w := pt.Tree.Ws[i]
	sc.reg(submitter, w.To)
	sc.track(w.Bridge, w.Leaf())
	return sc.op(L1Op{Kind: "finalize", Sender: submitter, Bridge: w.Bridge, Idx: pt.Idx, Seq: w.Seq, Proofs: pt.Tree.Proof(i), From: w.From, To: w.To,
		Denom: w.Denom, Amt: new(big.Int).Set(w.Amt), Version: []byte{pt.Version}, SRoot: pt.Tree.Root(), BHash: pt.BHash})
}

func (sc *L1Scenario) track(b uint64, leaf []byte) {
	k := strconv.FormatUint(b, 10) + ":" + hex.EncodeToString(leaf)
	if !sc.ClaimSet[k] {
		sc.ClaimSet[k] = true
		sc.Case.Track.Claims = append(sc.Case.Track.Claims, [2]string{strconv.FormatUint(b, 10), hex.EncodeToString(leaf)})
	}
}

// Finish re-executes nothing: observations need the FINAL tracked claim list, so cases that add
// claims during generation are recorded by a second, observing pass over a fresh environment.
type L1Builder func(sc *L1Scenario)

// RunL1Twice: pass 1 generates ops on a live env (generation consults live state); pass 2
// replays the same ops on a fresh env built from the same seed and records observations with
// the final tracked sets.  Both passes must produce the same verdicts (determinism check).
func RunL1Twice(seed uint64, id int, build L1Builder, rep *Report) *L1Case {
	sc := NewL1Scenario(seed, id, nil)
	build(sc)
	sc2 := NewL1Scenario(seed, id, nil)
	sc2.Case.Track = sc.Case.Track
	sc2.Env.Table = sc.Env.Table
	sc2.Case.Parse = sc.Case.Parse
	for i, o := range sc.Case.Ops {
		r := sc2.Case.DoObs(o)
		if r.OK != sc.Case.Results[i].OK {
			rep.Violate(Violation{Case: id, Step: i, What: "the same history gave different verdicts on two fresh instances", Sig: "nondeterministic-verdict", Ops: l1OpsHuman(sc.Case.Ops[:i+1])})
		}
	}
	return sc2.Case
}

func fmtOp(o L1Op) string { return fmt.Sprintf("%s b=%d", o.Kind, o.Bridge) }

// ---- generic random L1 history ----
type L1Weights struct {
	Create, Deposit, Propose, Delete, Claim, Role, Meta, Batch, Oracle, Params, Send, Record int
	AdvanceChance int // percent chance to advance time before an op
	BadSigner     int // percent chance that a permissioned op is sent by a random (possibly wrong) signer
	Replay        int // percent chance that a claim op re-submits an already used / stale claim
}

var DefaultL1Weights = L1Weights{Create: 6, Deposit: 22, Propose: 14, Delete: 5, Claim: 22, Role: 6, Meta: 2, Batch: 3, Oracle: 2, Params: 2, Send: 6, Record: 1,
	AdvanceChance: 45, BadSigner: 25, Replay: 30}

func (sc *L1Scenario) pickSigner(right []string) string {
	if sc.R.Chance(sc.wts.BadSigner) || len(right) == 0 {
		return sc.AddrString(sc.R.Weighted([]int{70, 10, 10, 10}))
	}
	return right[sc.R.Intn(len(right))]
}

func (sc *L1Scenario) existingBridges() []uint64 {
	nb, _ := sc.Env.K.GetNextBridgeId(sc.Env.Ctx)
	var out []uint64
	for b := uint64(1); b < nb; b++ {
		out = append(out, b)
	}
	return out
}

func (sc *L1Scenario) pickBridge() uint64 {
	ex := sc.existingBridges()
	nb := uint64(len(ex)) + 1
	switch sc.R.Weighted([]int{80, 10, 6, 4}) {
	case 0:
		if len(ex) > 0 {
			return ex[sc.R.Intn(len(ex))]
		}
		return nb
	case 1:
		return nb // the id the next bridge will get
	case 2:
		return nb + 1 + uint64(sc.R.Intn(3))
	default:
		return 0
	}
}

func (sc *L1Scenario) RandomStep() {
	e, r, w := sc.Env, sc.R, sc.wts
	if r.Chance(w.AdvanceChance) {
		dts := []int64{1, sec - 1, sec, sec + 1, 2 * sec, 6 * sec, 7 * sec, 3600 * sec, 500000000, 999999999}
		sc.Advance(dts[r.Intn(len(dts))])
	}
	c := sc.Case
	kind := r.Weighted([]int{w.Create, w.Deposit, w.Propose, w.Delete, w.Claim, w.Role, w.Meta, w.Batch, w.Oracle, w.Params, w.Send, w.Record})
	switch kind {
	case 0: // create
		period := sc.Periods[r.Intn(len(sc.Periods))]
		if r.Chance(10) {
			period = []int64{0, -1, -3600 * sec, -9223372036854775808}[r.Intn(4)]
		}
		cfg := sc.NewConfig(uint64(1+r.Intn(7)), uint64(1+r.Intn(7)), period)
		if r.Chance(5) {
			cfg.Chain = 0
		}
		if r.Chance(5) {
			cfg.Proposer = sc.AddrString(3)
		}
		creator := sc.AddrString(r.Weighted([]int{85, 5, 5, 5}))
		c.Do(sc.Create(creator, cfg))
	case 1: // deposit
		b := sc.pickBridge()
		sender := sc.AddrString(r.Weighted([]int{88, 4, 2, 6}))
		to := []string{"l2recipient", e.User(3).Str, "", "0xabc"}[r.Weighted([]int{40, 40, 5, 15})]
		amt := big.NewInt(int64(r.Intn(300)))
		switch r.Intn(25) {
		case 0:
			amt = big.NewInt(0)
		case 1:
			amt = new(big.Int).Lsh(big.NewInt(1), 64)
		case 2:
			amt = big.NewInt(-5)
		case 3:
			amt = big.NewInt(1000000000) // more than anybody holds
		}
		denom := sc.Denoms[r.Intn(len(sc.Denoms))]
		if r.Chance(4) {
			denom = "x"
		}
		var data []byte
		if r.Chance(30) {
			data = r.Bytes(1 + r.Intn(8))
		}
		sc.reg(sender)
		c.Do(sc.op(L1Op{Kind: "deposit", Sender: sender, Bridge: b, To: to, Denom: denom, Amt: amt, Data: data}))
	case 2: // propose
		b := sc.pickBridge()
		prop, _, _, ok := sc.Config(b)
		right := []string{}
		if ok {
			right = append(right, prop)
		}
		signer := sc.pickSigner(right)
		next, _ := e.K.GetNextOutputIndex(e.Ctx, b)
		idx := next
		if r.Chance(12) {
			idx = uint64(int(next) + r.Intn(3) - 1)
		}
		last := uint64(0)
		if next > 1 {
			if o, err := e.K.GetOutputProposal(e.Ctx, b, next-1); err == nil {
				last = o.L2BlockNumber
			}
		}
		l2 := last + 1 + uint64(r.Intn(5))
		if r.Chance(12) {
			l2 = last - uint64(r.Intn(2))
		}
		pt := sc.MakeTree(b, 1+r.Intn(6))
		pt.Idx = idx
		root := pt.Root
		if r.Chance(5) {
			root = r.Bytes(31)
		}
		sc.reg(signer)
		res := c.Do(sc.op(L1Op{Kind: "propose", Sender: signer, Bridge: b, Idx: idx, L2: l2, Root: root}))
		if res.OK {
			sc.Trees = append(sc.Trees, pt)
		}
	case 3: // delete
		b := sc.pickBridge()
		prop, chal, _, ok := sc.Config(b)
		right := []string{e.Auth}
		if ok {
			right = append(right, prop, chal)
		}
		signer := sc.pickSigner(right)
		next, _ := e.K.GetNextOutputIndex(e.Ctx, b)
		idx := uint64(r.Intn(int(next) + 1))
		sc.reg(signer)
		c.Do(sc.op(L1Op{Kind: "delete", Sender: signer, Bridge: b, Idx: idx}))
	case 4: // claim
		if len(sc.Trees) == 0 {
			return
		}
		pt := sc.Trees[r.Intn(len(sc.Trees))]
		if !r.Chance(w.Replay) { // prefer recent trees
			pt = sc.Trees[len(sc.Trees)-1-r.Intn(min(3, len(sc.Trees)))]
		}
		i := r.Intn(len(pt.Tree.Ws))
		op := sc.Claim(pt, i, e.User(uint64(1+r.Intn(7))).Str)
		switch r.Intn(14) {
		case 0: // other output index
			op.Idx = uint64(int(op.Idx) + 1 - 2*r.Intn(2))
		case 1: // other bridge
			ex := sc.existingBridges()
			if len(ex) > 0 {
				op.Bridge = ex[r.Intn(len(ex))]
			}
		case 2: // amount changed
			op.Amt = new(big.Int).Add(op.Amt, big.NewInt(1))
		}
		c.Do(op)
	case 5: // role update
		b := sc.pickBridge()
		prop, chal, _, ok := sc.Config(b)
		newAddr := sc.AddrString(r.Weighted([]int{85, 5, 5, 5}))
		sc.reg(newAddr)
		if r.Bool() {
			right := []string{e.Auth}
			if ok {
				right = append(right, prop)
			}
			signer := sc.pickSigner(right)
			sc.reg(signer)
			c.Do(sc.op(L1Op{Kind: "uproposer", Sender: signer, Bridge: b, NewAddr: newAddr}))
		} else {
			right := []string{e.Auth}
			if ok {
				right = append(right, chal)
			}
			signer := sc.pickSigner(right)
			sc.reg(signer)
			c.Do(sc.op(L1Op{Kind: "uchallenger", Sender: signer, Bridge: b, NewAddr: newAddr}))
		}
	case 6: // metadata
		b := sc.pickBridge()
		prop, _, _, ok := sc.Config(b)
		right := []string{e.Auth}
		if ok {
			right = append(right, prop)
		}
		signer := sc.pickSigner(right)
		sc.reg(signer)
		md := r.Bytes(r.Intn(12))
		if r.Chance(8) {
			md = make([]byte, 5121)
		}
		c.Do(sc.op(L1Op{Kind: "umeta", Sender: signer, Bridge: b, Meta: md}))
	case 7: // batch info
		b := sc.pickBridge()
		prop, _, _, ok := sc.Config(b)
		right := []string{e.Auth}
		if ok {
			right = append(right, prop)
		}
		signer := sc.pickSigner(right)
		sc.reg(signer)
		sub := e.User(uint64(1 + r.Intn(7))).Str
		if r.Chance(10) {
			sub = ""
		}
		c.Do(sc.op(L1Op{Kind: "ubatch", Sender: signer, Bridge: b, Submitter: sub, Chain: uint64(r.Intn(3))}))
	case 8: // oracle flag
		b := sc.pickBridge()
		prop, _, _, ok := sc.Config(b)
		right := []string{e.Auth}
		if ok {
			right = append(right, prop)
		}
		signer := sc.pickSigner(right)
		sc.reg(signer)
		c.Do(sc.op(L1Op{Kind: "uoracle", Sender: signer, Bridge: b, Flag: r.Bool()}))
	case 9: // params (registration fee)
		signer := sc.pickSigner([]string{e.Auth})
		sc.reg(signer)
		var fee []HookSend
		if r.Bool() {
			fee = append(fee, HookSend{Denom: "uinit", Amt: big.NewInt(int64(r.Intn(4) * 50))})
		}
		if r.Chance(20) {
			fee = append(fee, HookSend{Denom: "uusdc", Amt: big.NewInt(7)})
		}
		c.Do(sc.op(L1Op{Kind: "uparams", Sender: signer, Fee: fee}))
	case 10: // bank send (incl. donations to an escrow address)
		from := uint64(1 + r.Intn(7))
		to := uint64(1 + r.Intn(7))
		if r.Chance(30) {
			to = EscrowBase + 1 + uint64(r.Intn(4))
		}
		c.Do(sc.op(L1Op{Kind: "send", FromID: from, ToID: to, Denom: sc.Denoms[r.Intn(len(sc.Denoms))], Amt: big.NewInt(int64(1 + r.Intn(200)))}))
	case 11:
		signer := sc.AddrString(r.Weighted([]int{85, 5, 5, 5}))
		sc.reg(signer)
		c.Do(sc.op(L1Op{Kind: "recordbatch", Sender: signer, Bridge: sc.pickBridge(), Data: r.Bytes(r.Intn(4))}))
	}
}

func min(a, b int) int {
	if a < b {
		return a
	}
	return b
}
