#!/bin/bash
# setup_cmd: build the whole framework from files on disk only (offline).
set -e
cd "$(dirname "$0")"
export GOWORK=off GOFLAGS=-mod=mod GOPROXY=off GOSUMDB=off GOTOOLCHAIN=local
mkdir -p .build evidence
# forbidden keywords anywhere in the development fail the build
if grep -rnE '\b(Admitted|Axiom|Parameter|Conjecture|bypass_check)\b|Unset Guard|Admit Obligations' coq/Model coq/Proofs coq/Properties --include=*.v | grep -v '^\S*:\S*:\s*(\*' ; then
  echo "forbidden keyword in the Coq development"; exit 1
fi
python3 - <<'PY'
import sys, os
sys.path.insert(0, os.path.join(os.getcwd(), "checker"))
import common
common.ensure_makefile()
PY
(cd coq && timeout 3000 make -j16 2>&1 | tail -5)
(cd harness && ./gen_gomod.sh && timeout 1500 go build -tags verif -o ../.build/harness . )
echo "setup done"
